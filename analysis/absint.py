"""E2 — abstract interpreter over the MIR facts (see DESIGN.md section 2).

Forward analysis with abstract inlining of in-crate callees, trace partitioning on
enum variants / constant flags, LIN constraint stores, provenance-carrying values.
"""
import os
import time
import sys
from lin import Lin, ATOMS, Store, le, lt
from values import (Loc, World, Obj, TY, reg_ty, UNIT, MOVED, TRUE, FALSE, vint, vbool,
                    is_const_int)
from mirlib import strip_generics, pp_span, liveness

USIZE_MAX = 2 ** 64 - 1
FALSE_CON = Lin.c(1)
ISIZE_MAX = 2 ** 63 - 1


ALLFRAMES = os.environ.get('VERIF_ALLFRAMES', '1') == '1'


class BudgetExceeded(Exception):
    """the wall-clock budget of one analysis ran out (not an AnalysisError: it must not be swallowed as an imprecise block)"""


class AnalysisError(Exception):
    pass


def int_range(ty):
    bits = ty['bits']
    if ty['signed']:
        return (-(2 ** (bits - 1)), 2 ** (bits - 1) - 1)
    return (0, 2 ** bits - 1)


def subst_ty(ty, env):
    """substitute type parameters (by name) in a ty json"""
    if not env or ty is None:
        return ty
    k = ty['k']
    if k == 'param':
        return env.get(ty['name'], ty)
    if k in ('ref', 'ptr'):
        return dict(ty, to=subst_ty(ty['to'], env), s=ty['s'] + '|' + _envs(env))
    if k in ('slice', 'array'):
        return dict(ty, of=subst_ty(ty['of'], env), s=ty['s'] + '|' + _envs(env))
    if k == 'tuple':
        return dict(ty, of=[subst_ty(t, env) for t in ty['of']], s=ty['s'] + '|' + _envs(env))
    if k == 'adt':
        if not ty['args']:
            return ty
        return dict(ty, args=[subst_ty(t, env) for t in ty['args']], s=ty['s'] + '|' + _envs(env))
    return ty


def _envs(env):
    return ','.join(f"{k}={v['s']}" for k, v in sorted(env.items()))


def is_u8_seq(ty):
    return ty['k'] in ('slice', 'array') and ty['of']['k'] == 'int' and ty['of']['bits'] == 8


class Record:
    __slots__ = ('kind', 'site', 'ctx', 'data')

    def __init__(self, kind, site, ctx, data):
        self.kind = kind      # 'ob' | 'event' | 'note'
        self.site = site      # (fnkey, bb, idx, line, file)
        self.ctx = ctx        # call path
        self.data = data

    def __repr__(self):
        return f"<{self.kind} {self.site} {self.data}>"


class Frame:
    __slots__ = ('fid', 'body', 'ctx', 'single_assign')

    def __init__(self, fid, body, ctx):
        self.fid = fid
        self.body = body
        self.ctx = ctx


def form_is_linear(f):
    """formula built from comparisons of linear expressions only (its truth depends on the constraint store alone)"""
    if f[0] == 'cmp':
        return True
    if f[0] == 'not':
        return form_is_linear(f[1])
    if f[0] == 'and':
        return form_is_linear(f[1]) and form_is_linear(f[2])
    return f[0] == 'c'


FN_TRAITS = ('std::ops::FnOnce', 'std::ops::FnMut', 'std::ops::Fn', 'core::ops::FnOnce', 'core::ops::FnMut', 'core::ops::Fn')


class Interp:
    def __init__(self, facts, config=None):
        self.facts = facts
        self.cfg = config or {}
        self.records = {}           # (ctx, bb) -> list[Record]
        self.unmodelled = {}        # description -> count
        self.budget_s = int(self.cfg.get('budget_s', os.environ.get('VERIF_BUDGET_S', '900')))
        self.deadline = time.time() + self.budget_s
        self.stats = {'blocks': 0, 'joins': 0, 'widenings': 0, 'calls_inlined': 0,
                      'worlds_max': 0, 'functions': set()}
        self._single_assign = {}
        self._join_family = {}
        self._inline_seq = {}
        self.loop_atoms = set()        # join atoms created at loop heads, and joins of values that mention them
        self.head_points = set()
        self._live = {}
        self.trait_impls = self.cfg.get('trait_impls', {})   # trait method path -> body key (optional devirtualisation)
        self.max_worlds = self.cfg.get('max_worlds', 96)
        self.kslots = self.cfg.get('kslots', 3)
        self.depth = 0
        self.frames = {}
        self._keyctx = None

    # ------------------------------------------------------------------ bookkeeping
    def note_unmodelled(self, what):
        self.unmodelled[what] = self.unmodelled.get(what, 0) + 1

    def rec(self, frame, bb, kind, site, data):
        key = (frame.ctx, bb)
        self.records.setdefault(key, []).append(Record(kind, site, frame.ctx, data))

    def clear_records(self, ctx, bb):
        self._inline_seq[(ctx, bb)] = 0
        pref = ctx + ((bb,),)
        # records of this block and of every callee context entered from this block
        for k in [k for k in self.records if k == (ctx, bb) or (len(k[0]) > len(ctx) and k[0][:len(ctx)] == ctx and k[0][len(ctx)][1] == bb and k[0][len(ctx)][2] == 'via')]:
            del self.records[k]

    def all_records(self):
        out = []
        for k in sorted(self.records, key=lambda k: (len(k[0]), str(k))):
            out.extend(self.records[k])
        return out

    # ------------------------------------------------------------------ types / materialisation
    def adt(self, name):
        return self.facts.adts.get(name)

    def adt_env(self, ty):
        a = self.adt(ty['name'])
        if not a:
            return {}
        return {n: t for n, t in zip(a.get('generics', []), ty['args'])}

    def fresh_int(self, w, ty, name, defn=None, key=None):
        lo, hi = int_range(ty)
        a = ATOMS.fresh(name, lo, hi, defn=defn, key=key)
        return ('int', Lin.atom(a))

    def rename_atom(self, w, a):
        """the keyed atom `a` is about to denote a new value in world w: whatever w still says about
        the old value is transferred to a fresh atom"""
        A = Lin.atom(a)
        used = any(c.coef(a) for c in w.store.cons)
        if not used:
            used = any(self._mentions(v, a) for v in w.mem.values())
        if not used:
            return
        inf = ATOMS.info(a)
        b = ATOMS.fresh(inf.name + "'", inf.lo, inf.hi, defn=inf.defn)
        B = Lin.atom(b)
        w.store = Store(frozenset(c.subst(a, B) for c in w.store.cons))
        for root, v in list(w.mem.items()):
            if self._mentions(v, a):
                w.mem[root] = self._subst_value(v, a, B)

    def _mentions(self, v, a):
        t = v[0]
        if t == 'int':
            return bool(v[1].coef(a))
        if t in ('slice', 'iter'):
            return bool(v[2].coef(a) or v[3].coef(a))
        if t == 'agg':
            return any(self._mentions(x, a) for x in v[1])
        if t == 'enum':
            return any(self._mentions(x, a) for _, fs in v[1] for x in fs)
        if t == 'seq':
            return bool(v[1].coef(a)) or any(self._mentions(cv, a) or ci.coef(a) for ci, cv in v[3])
        if t == 'bool':
            return a in self._form_atoms(v[1])
        return False

    def _form_atoms(self, f):
        if f[0] == 'cmp':
            return set(f[2].atoms()) | set(f[3].atoms())
        if f[0] == 'not':
            return self._form_atoms(f[1])
        if f[0] == 'and':
            return self._form_atoms(f[1]) | self._form_atoms(f[2])
        if f[0] == 'ovf':
            return set(f[1].atoms())
        return set()

    def _subst_value(self, v, a, B):
        t = v[0]
        if t == 'int':
            return ('int', v[1].subst(a, B))
        if t == 'slice':
            return ('slice', v[1], v[2].subst(a, B), v[3].subst(a, B))
        if t == 'iter':
            return ('iter', v[1], v[2].subst(a, B), v[3].subst(a, B)) + tuple(v[4:])
        if t == 'agg':
            return ('agg', tuple(self._subst_value(x, a, B) for x in v[1]))
        if t == 'enum':
            return ('enum', tuple((k, tuple(self._subst_value(x, a, B) for x in fs)) for k, fs in v[1]))
        if t == 'seq':
            return ('seq', v[1].subst(a, B), v[2], tuple((ci.subst(a, B), self._subst_value(cv, a, B)) for ci, cv in v[3]), v[4], v[5])
        if t == 'bool':
            return ('bool', ('opq', ('renamed', Obj.fresh())))
        return v

    def new_seq(self, w, elem_ty, name, tag, length=None, cap=None):
        """allocate a sequence object (bytes / cells); returns root"""
        root = ('O', Obj.fresh())
        if self._keyctx is not None:
            kroot = ('O', ('mat', self._keyctx, name))
            if kroot not in w.mem:
                root = kroot
        if length is None:
            a = ATOMS.fresh(f"len({name})", 0, ISIZE_MAX)
            length = Lin.atom(a)
        w.mem[root] = ('seq', length, reg_ty(elem_ty), (), tag, cap)
        w.names[root] = name
        return root

    def materialize(self, w, ty, name, origin=None):
        """expand an unknown of type `ty` one level"""
        k = ty['k']
        if k == 'int':
            return self.fresh_int(w, ty, name)
        if k == 'bool':
            if self._keyctx is not None:
                bk = ('mat', self._keyctx, name)
                w.facts.pop(bk, None)
                return ('bool', ('opq', bk))
            return ('bool', ('opq', ('mat', Obj.fresh(), name)))
        if k == 'tuple':
            if not ty['of']:
                return UNIT
            return ('agg', tuple(('top', reg_ty(t), origin, f"{name}.{i}") for i, t in enumerate(ty['of'])))
        if k in ('ref', 'ptr'):
            to = ty['to']
            if to['k'] == 'slice':
                root = self.new_seq(w, to['of'], name, ('pointee', origin))
                return ('slice', Loc(root), Lin.c(0), w.mem[root][1])
            if to['k'] == 'str':
                return ('top', reg_ty(ty), origin, name)
            root = ('O', Obj.fresh())
            w.mem[root] = ('top', reg_ty(to), origin, f"*{name}")
            w.names[root] = f"*{name}"
            return ('ref', Loc(root))
        if k == 'array':
            n = ty['len']
            if ty['of']['k'] == 'int':
                if self._keyctx is not None:
                    return ('arr', n, ('unknown', ('mat', self._keyctx), name))
                return ('arr', n, ('unknown', Obj.fresh(), name))
            return ('top', reg_ty(ty), origin, name)
        if k == 'adt':
            if ty.get('is_box'):
                inner = ty['args'][0]
                if inner['k'] == 'slice':
                    root = self.new_seq(w, inner['of'], name, ('box', origin))
                    return ('box', root, origin)
                return ('top', reg_ty(ty), origin, name)
            nm = ty['name']
            if nm == 'std::vec::Vec':
                root = self.new_seq(w, ty['args'][0], name, ('vec', origin))
                return ('vec', root)
            a = self.adt(nm)
            if a is None:
                return None
            env = self.adt_env(ty)
            if a['kind'] == 'struct':
                fs = a['variants'][0]['fields']
                return ('agg', tuple(('top', reg_ty(subst_ty(f['ty'], env)), origin, f"{name}.{f['name']}") for f in fs))
            if a['kind'] == 'enum':
                alts = []
                for v in a['variants']:
                    alts.append((v['idx'], tuple(('top', reg_ty(subst_ty(f['ty'], env)), origin, f"{name}.{v['name']}.{f['name']}") for f in v['fields'])))
                return ('enum', tuple(alts))
            return None
        return None

    def expand(self, w, v):
        """if v is an expandable 'top', return its one-level expansion, else v"""
        if v[0] != 'top':
            return v
        ty = TY.get(v[1])
        if ty is None:
            return v
        m = self.materialize(w, ty, v[3] if len(v) > 3 else '?', v[2])
        return v if m is None else m

    def deep_expand(self, w, v, depth=6, keyed=None):
        """expand unknowns eagerly so that every world forked later shares the same atoms; with
        `keyed` the atoms / objects are named after the call site so that worlds which execute the
        same call separately still agree on the names (old occurrences are renamed first)"""
        if keyed is not None:
            prev = self._keyctx
            self._keyctx = keyed
            try:
                return self.deep_expand(w, v, depth)
            finally:
                self._keyctx = prev
        if depth <= 0:
            return v
        v = self.expand(w, v)
        t = v[0]
        if t == 'agg':
            return ('agg', tuple(self.deep_expand(w, x, depth - 1) for x in v[1]))
        if t == 'enum':
            return ('enum', tuple((a, tuple(self.deep_expand(w, x, depth - 1) for x in fs)) for a, fs in v[1]))
        if t == 'ref' and v[1].root[0] == 'O' and not v[1].path:
            inner = w.mem.get(v[1].root)
            if inner is not None and inner[0] == 'top':
                w.mem[v[1].root] = self.deep_expand(w, inner, depth - 1)
        return v

    # ------------------------------------------------------------------ memory
    def read(self, w, loc):
        root = loc.root
        if root not in w.mem:
            raise AnalysisError(f"read of unbound root {loc!r}")
        v = w.mem[root]
        if not loc.path:
            ev = self.expand(w, v)
            if ev is not v:
                w.mem[root] = ev
            return ev
        # ensure expansions along the path are written back
        nv, out = self._walk(w, v, loc.path, None)
        if nv is not v:
            w.mem[root] = nv
        return out

    def write(self, w, loc, val):
        root = loc.root
        if w.alias:
            # a copy or its source is overwritten: they no longer denote the same value
            for k in [k for k, src in w.alias.items() if k[0] == root or src.root == root]:
                del w.alias[k]
        if not loc.path:
            w.mem[root] = val
            return
        if root not in w.mem:
            raise AnalysisError(f"write to unbound root {loc!r}")
        v = w.mem[root]
        nv, _ = self._walk(w, v, loc.path, val)
        w.mem[root] = nv

    def _walk(self, w, v, path, newval):
        """returns (updated node, value read at path [after expansion]); when newval is not
        None the value at path is replaced"""
        v = self.expand(w, v)
        if not path:
            if newval is not None:
                return newval, newval
            return v, v
        e = path[0]
        rest = path[1:]
        tag = v[0]
        if e[0] == 'f':
            i = e[1]
            if tag == 'agg':
                child = v[1][i]
                nc, out = self._walk(w, child, rest, newval)
                if nc is child:
                    return v, out
                fs = list(v[1])
                fs[i] = nc
                return ('agg', tuple(fs)), out
            if tag == 'box' and i == 0:
                # Box<[T]>.0 (Unique) .0 (NonNull) [.0 pointer]
                r = rest
                while r and r[0] == ('f', 0):
                    r = r[1:]
                if r:
                    raise AnalysisError(f"unsupported projection into box {path}")
                if newval is not None:
                    raise AnalysisError("write into box internals")
                return v, ('boxptr', v[1])
            if tag == 'boxptr':
                return v, v
            if tag in ('moved',):
                return v, ('top', None, 'moved', '?')
            if tag == 'top':
                return v, ('top', None, v[2], '?')
            raise AnalysisError(f"field projection on {tag} value {path}")
        if e[0] == 'd':
            var = e[1]
            if tag == 'enum':
                for idx, (vi, fields) in enumerate(v[1]):
                    if vi == var:
                        # the rest must start with a field
                        if not rest:
                            return v, ('agg', fields)
                        f = rest[0]
                        assert f[0] == 'f', rest
                        child = fields[f[1]]
                        nc, out = self._walk(w, child, rest[1:], newval)
                        if nc is child:
                            return v, out
                        fs = list(fields)
                        fs[f[1]] = nc
                        alts = list(v[1])
                        alts[idx] = (vi, tuple(fs))
                        return ('enum', tuple(alts)), out
                # variant not among alternatives: unreachable access
                return v, ('top', None, 'dead-variant', '?')
            if tag in ('top', 'moved'):
                return v, ('top', None, 'unknown-enum', '?')
            raise AnalysisError(f"downcast on {tag} value")
        if e[0] == 'i':
            idx = e[1]
            if tag == 'seq':
                cells = v[3]
                for ci, (cidx, cval) in enumerate(cells):
                    if cidx == idx:
                        nc, out = self._walk(w, cval, rest, newval)
                        if nc is cval:
                            return v, out
                        cl = list(cells)
                        cl[ci] = (cidx, nc)
                        return ('seq', v[1], v[2], tuple(cl), v[4], v[5]), out
                # new cell
                ety = TY.get(v[2])
                name = f"{self._seqname(w, v)}[{idx.pretty()}]"
                if isinstance(v[4], tuple) and v[4] and v[4][0] == 'default':
                    cval = v[4][1]          # scenario: every element not yet touched holds this value
                elif ety is not None and ety.get('k') == 'int' and newval is None:
                    lo_, hi_ = int_range(ety)
                    cval = ('int', Lin.atom(ATOMS.fresh(name, lo_, hi_, defn=('elem', v[4], idx))))
                else:
                    cval = ('top', v[2], ('cell', v[4]), name)
                nc, out = self._walk(w, cval, rest, newval)
                if newval is not None:
                    # a write to an index: cells at other (possibly equal) indexes are forgotten
                    cl = [(ci_, cv_) for (ci_, cv_) in cells if self._distinct(w, ci_, idx)]
                else:
                    cl = list(cells)
                cl.append((idx, nc))
                return ('seq', v[1], v[2], tuple(cl), v[4], v[5]), out
            if tag == 'arr':
                if newval is not None:
                    return ('arr', v[1], ('unknown', Obj.fresh(), 'written')), newval
                if v[2][0] == 'elems' and len(v[2][1]) == v[1]:
                    els = v[2][1]
                    if idx.is_const() and 0 <= idx.const < len(els):
                        return v, els[idx.const]
                    lo_hi = w.store.bounds(idx)
                    if lo_hi[0] is not None and lo_hi[0] == lo_hi[1] and 0 <= lo_hi[0] < len(els):
                        return v, els[lo_hi[0]]
                    if all(e[0] == 'int' and e[1].is_const() for e in els):
                        cs = [e[1].const for e in els]
                        if 2 <= len(cs) <= 64 and all(cs[i + 1] - cs[i] == cs[1] - cs[0] for i in range(len(cs) - 1)):
                            # an affine table (`[0, 2, 4, 6, 8]`): the element is step * index + first, exactly
                            return v, ('int', idx.scale(cs[1] - cs[0]) + cs[0])
                        a = ATOMS.fresh('elem', min(cs), max(cs), defn=('arr_elem', v[2], idx))
                        return v, ('int', Lin.atom(a))
                    return v, ('top', None, 'arr-elem', '?')
                if v[2][0] == 'repeat':
                    return v, v[2][1]
                if v[2][0] == 'bytes_of' and v[2][1].root in w.mem and v[2][1].root not in w.written and w.mem[v[2][1].root][0] == 'seq':
                    # an array that holds "the bytes of window s[k..k+n)" of an unwritten object: element i is the cell s[k+i]
                    return v, self.read(w, v[2][1].ext(('i', v[2][2] + idx)))
                if v[2][0] == 'be' and idx.is_const() and v[2][2] == v[1] and 1 <= v[1] <= 8 and 0 <= idx.const < v[1]:
                    # a byte of `x.to_be_bytes()`: the bytes are the base-256 digits of x, most significant first
                    n_ = v[1]
                    digs = [ATOMS.fresh(f"byte{k_}of({v[2][1].pretty()})", 0, 255, defn=('be_byte', v[2][1], n_, k_), key=('be_byte', v[2][1], n_, k_)) for k_ in range(n_)]
                    tot = Lin.c(0)
                    for a_ in digs:
                        tot = tot.scale(256) + Lin.atom(a_)
                    w.store = w.store.add_eq(tot, v[2][1])
                    return v, ('int', Lin.atom(digs[idx.const]))
                a = ATOMS.fresh('byte', 0, 255, defn=('arr_elem', v[2], idx), key=('arr_elem', v[2], idx))
                return v, ('int', Lin.atom(a))
            raise AnalysisError(f"index projection on {tag}")
        raise AnalysisError(f"bad path element {e}")

    def _seqname(self, w, seqv):
        tag = seqv[4]
        return str(tag[0]) if isinstance(tag, tuple) else str(tag)

    def _distinct(self, w, a, b):
        d = a - b
        if d.is_const():
            return d.const != 0
        return w.store.entails(lt(a, b)) or w.store.entails(lt(b, a))

    def seq_len(self, w, root):
        v = w.mem[root]
        assert v[0] == 'seq', v
        return v[1]

    # ------------------------------------------------------------------ places
    def local_root(self, frame, i):
        return ('L', frame.fid, i)

    def resolve_place(self, w, frame, place):
        """-> ('loc', Loc, ty) | ('sl', base Loc, start Lin, len Lin, ty_of_pointee)"""
        body = frame.body
        cur = ('loc', Loc(self.local_root(frame, place['local'])), body.local_ty(place['local']))
        for e in place['proj']:
            k = e['p']
            if k == 'deref':
                if cur[0] != 'loc':
                    raise AnalysisError("deref of slice place")
                v = self.read(w, cur[1])
                ty = cur[2]
                to = ty.get('to') if ty['k'] in ('ref', 'ptr') else (ty['args'][0] if ty.get('is_box') else None)
                if v[0] == 'ref':
                    cur = ('loc', v[1], to)
                elif v[0] == 'slice':
                    cur = ('sl', v[1], v[2], v[3], to)
                elif v[0] == 'box':
                    cur = ('sl', Loc(v[1]), Lin.c(0), self.seq_len(w, v[1]), to)
                elif v[0] == 'top':
                    # pointer to something we know nothing about (e.g. generic parameter)
                    root = ('O', Obj.fresh())
                    w.mem[root] = ('top', reg_ty(to) if to else None, v[2], f"*{v[3]}")
                    w.names[root] = f"*{v[3]}"
                    nv = ('ref', Loc(root))
                    self.write(w, cur[1], nv)
                    cur = ('loc', Loc(root), to)
                else:
                    raise AnalysisError(f"deref of {v[0]} value")
            elif k == 'field':
                if cur[0] != 'loc':
                    raise AnalysisError("field of slice place")
                cur = ('loc', cur[1].ext(('f', e['i'])), e['ty'])
            elif k == 'downcast':
                cur = ('loc', cur[1].ext(('d', e['v'])), cur[2])
            elif k in ('index', 'constindex'):
                if k == 'index':
                    iv = self.read(w, Loc(self.local_root(frame, e['local'])))
                    if iv[0] != 'int':
                        raise AnalysisError("non-int index")
                    idx = iv[1]
                else:
                    if e['from_end']:
                        raise AnalysisError("constindex from_end")
                    idx = Lin.c(e['offset'])
                if cur[0] == 'sl':
                    ety = cur[4]['of'] if cur[4] and cur[4]['k'] in ('slice', 'array') else None
                    cur = ('loc', cur[1].ext(('i', cur[2] + idx)), ety)
                else:
                    ty = cur[2]
                    ety = ty['of'] if ty and ty['k'] in ('slice', 'array') else None
                    cur = ('loc', cur[1].ext(('i', idx)), ety)
            else:
                raise AnalysisError(f"projection {k}")
        return cur

    def read_place(self, w, frame, place):
        cur = self.resolve_place(w, frame, place)
        if cur[0] != 'loc':
            raise AnalysisError("by-value read of unsized place")
        v = self.read(w, cur[1])
        if v[0] == 'top' and v[1] is None and cur[2] is not None:
            # untyped unknown: give it the type the place says it has, and expand
            nv = self.expand(w, ('top', reg_ty(cur[2]), v[2], self.place_name(frame, place)))
            self.write(w, cur[1], nv)
            return nv
        return v

    def place_name(self, frame, place):
        from mirlib import pp_place
        import re
        s = pp_place(frame.body, place)
        s = re.sub(r'_\d+«([^»]*)»', r'\1', s)
        return s

    # ------------------------------------------------------------------ operands / rvalues
    def eval_const(self, w, frame, o):
        ty = o['ty']
        k = ty['k']
        if 'fn' in o:
            return ('fn', o['fn'])
        if k == 'int':
            if 'int' in o:
                return vint(int(o['int']))
            return self.fresh_int(w, ty, 'const?')
        if k == 'bool':
            if 'bits' in o:
                return vbool(int(o['bits']) != 0)
        if k == 'tuple' and not ty['of']:
            return UNIT
        if k == 'ref' and 'promoted' in o:
            pname = f"{o['item']}::promoted[{o['promoted']}]"
            pb = self.facts.bodies.get(pname)
            if pb is not None:
                root = ('K', pname)
                if root not in w.mem:
                    # evaluate the promoted body (constant construction only, no calls)
                    val = self.eval_promoted(w, pb)
                    if val is not None:
                        w.mem[root] = val
                        w.names[root] = f"const {o['s'].split('::')[-1]}"
                if root in w.mem:
                    return ('ref', Loc(root))
        if k == 'ref':
            to = ty['to']
            if to['k'] == 'array' and to['of']['k'] == 'int':
                # promoted / literal byte array constant: an anonymous constant object
                root = ('K', o['s'], to['len'])
                if root not in w.mem:
                    w.mem[root] = ('arr', to['len'], ('const', o['s']))
                    w.names[root] = f"const {o['s']}"
                return ('ref', Loc(root))
            if to['k'] == 'slice':
                root = ('K', o.get('item') or o['s'], 'slice')
                if root not in w.mem:
                    known = None
                    cj = self.facts.consts.get(o.get('item') or '')
                    if cj and isinstance(cj.get('alloc'), dict) and cj['alloc'].get('len') == 16:
                        known = int.from_bytes(bytes.fromhex(cj['alloc']['bytes'])[8:16], 'little')
                    if known is not None:
                        ln_ = Lin.c(known)
                    else:
                        ln_ = Lin.atom(ATOMS.fresh(f"len(const {o.get('item') or o['s']})", 0, ISIZE_MAX, key=('constlen', root)))
                    w.mem[root] = ('seq', ln_, reg_ty(to['of']), (), ('const', o.get('item') or o['s']), None)
                    w.names[root] = f"const {o.get('item') or o['s']}"
                return ('slice', Loc(root), Lin.c(0), w.mem[root][1])
            if to['k'] == 'str':
                return ('top', reg_ty(ty), 'const', o['s'])
        if k == 'array' and ty['of']['k'] == 'int' and o.get('item'):
            # constant table of integers (e.g. `const LENGTHS: [usize; 4]`): the values the compiler evaluated
            cj = self.facts.consts.get(o['item'])
            if cj and isinstance(cj.get('alloc'), dict) and not cj['alloc'].get('ptrs'):
                raw = bytes.fromhex(cj['alloc']['bytes'])
                esz = ty['of']['bits'] // 8
                if esz and len(raw) == esz * ty['len']:
                    vals = []
                    for i in range(ty['len']):
                        x = int.from_bytes(raw[i * esz:(i + 1) * esz], 'little', signed=bool(ty['of'].get('signed')))
                        vals.append(vint(x))
                    return ('arr', ty['len'], ('elems', tuple(vals)))
        if k == 'array' and ty['of']['k'] == 'adt' and o.get('item'):
            # constant table of enum / struct values (`[Option<usize>; 6]`), destructured element by element by gse-mir
            cj = self.facts.consts.get(o['item'])
            if cj and isinstance(cj.get('elems'), list) and len(cj['elems']) == ty['len']:
                vals = [self._const_adt(ej['ty'], ej) for ej in cj['elems']]
                if all(v is not None for v in vals):
                    return ('arr', ty['len'], ('elems', tuple(vals)))
        if k == 'adt' and 'fields' in o:
            v = self._const_adt(ty, o)
            if v is not None:
                return v
        if False and k == 'adt' and 'fields' in o:
            # destructured constant (gse-mir): variant index + scalar fields
            fs = []
            ok = True
            for fj in o['fields']:
                fk = fj['ty']['k']
                if 'bits' in fj and fk == 'int':
                    bits, size = int(fj['bits']), fj['size']
                    if fj['ty'].get('signed') and bits >= 1 << (8 * size - 1):
                        bits -= 1 << (8 * size)
                    fs.append(vint(bits))
                elif 'bits' in fj and fk == 'bool':
                    fs.append(vbool(int(fj['bits']) != 0))
                elif fk == 'tuple' and not fj['ty']['of']:
                    fs.append(UNIT)
                else:
                    ok = False
            a = self.adt(ty['name'])
            if ok and a:
                if a['kind'] == 'enum' and 'variant' in o:
                    return ('enum', ((o['variant'], tuple(fs)),))
                if a['kind'] == 'struct':
                    return ('agg', tuple(fs))
        if k == 'adt':
            a = self.adt(ty['name'])
            if a and a['kind'] == 'enum' and all(not v['fields'] for v in a['variants']) and 'bits' in o:
                bits = o['bits']
                for v in a['variants']:
                    if v['discr'] == bits:
                        return ('enum', ((v['idx'], ()),))
            if a and a['kind'] == 'struct' and not a['variants'][0]['fields']:
                return ('agg', ())
        if k == 'array' and ty['of']['k'] == 'int':
            return ('arr', ty['len'], ('const', o['s']))
        return ('top', reg_ty(ty), 'const', o['s'])

    def _const_adt(self, ty, o):
        """value of a destructured constant (gse-mir): variant index + scalar fields; None when a field is not a scalar"""
        if 'fields' not in o or ty.get('k') != 'adt':
            return None
        fs = []
        for fj in o['fields']:
            fk = fj['ty']['k']
            if 'bits' in fj and fk == 'int':
                bits, size = int(fj['bits']), fj['size']
                if fj['ty'].get('signed') and bits >= 1 << (8 * size - 1):
                    bits -= 1 << (8 * size)
                fs.append(vint(bits))
            elif 'bits' in fj and fk == 'bool':
                fs.append(vbool(int(fj['bits']) != 0))
            elif fk == 'tuple' and not fj['ty']['of']:
                fs.append(UNIT)
            else:
                return None
        a = self.adt(ty['name'])
        if a:
            if a['kind'] == 'enum' and 'variant' in o:
                return ('enum', ((o['variant'], tuple(fs)),))
            if a['kind'] == 'struct':
                return ('agg', tuple(fs))
        return None

    def eval_promoted(self, w, pb):
        """value of the place a promoted constant refers to: run its single block on a scratch
        frame and read the local behind `_0 = &_n`"""
        if len(pb.blocks) != 1:
            return None
        fid = Obj.fresh()
        fr = Frame(fid, pb, (('promoted', 0, 'via'),))
        fr.single_assign = frozenset()
        self.frames[fid] = fr
        w2 = w.fork()
        target = None
        try:
            for idx, st in enumerate(pb.blocks[0]['stmts']):
                if st['s'] == 'assign' and st['place'] == {'local': 0, 'proj': []} and st['rv']['r'] == 'ref':
                    target = st['rv']['place']
                    break
                self.exec_stmt(w2, fr, 0, idx, st)
            if target is None or target['proj']:
                return None
            return w2.mem.get(('L', fid, target['local']))
        except AnalysisError:
            return None

    def eval_operand(self, w, frame, o):
        k = o['o']
        if k == 'const':
            return self.eval_const(w, frame, o)
        if k == 'copy':
            return self.read_place(w, frame, o['place'])
        if k == 'move':
            cur = self.resolve_place(w, frame, o['place'])
            v = self.read_place(w, frame, o['place'])
            if self.has_owned(v):
                self.write(w, cur[1], MOVED)
            return v
        if k == 'runtime_checks':
            return ('bool', ('opq', ('runtime_checks', o.get('s'))))
        raise AnalysisError(f"operand {k}")

    def has_owned(self, v):
        t = v[0]
        if t in ('box', 'vec'):
            return True
        if t == 'agg':
            return any(self.has_owned(x) for x in v[1])
        if t == 'enum':
            return any(self.has_owned(x) for _, fs in v[1] for x in fs)
        if t == 'top':
            s = v[1] or ''
            return 'Box<' in s or 'Vec<' in s
        return False

    def in_range(self, w, lin, lo, hi):
        if lin.is_const():
            return lo <= lin.const <= hi
        return w.store.entails(le(Lin.c(lo), lin)) and w.store.entails(le(lin, Lin.c(hi)))

    def decompose_bits(self, w, x, s, e, width):
        """x = 2^e*h + 2^s*q + l  with 0<=l<2^s, 0<=q<2^(e-s), h>=0.  Returns (h,q,l) Lins.
        atoms are cached per (x,s,e) so that repeated masks agree."""
        key = ('bits', x, s, e)
        hk = ATOMS.fresh('hi', 0, 2 ** (width - e) - 1 if width > e else 0, key=key + ('h',), defn=('bits_hi', x, e))
        qk = ATOMS.fresh('bits', 0, 2 ** (e - s) - 1, key=key + ('q',), defn=('bits_mid', x, s, e))
        lk = ATOMS.fresh('lo', 0, 2 ** s - 1, key=key + ('l',), defn=('bits_lo', x, s))
        h = Lin.atom(hk) if width > e else Lin.c(0)
        q = Lin.atom(qk)
        l = Lin.atom(lk) if s > 0 else Lin.c(0)
        w.store = w.store.add_eq(x, h.scale(2 ** e) + q.scale(2 ** s) + l)
        return h, q, l

    def eval_binop(self, w, frame, op, a, b, aty, site):
        base = op.replace('WithOverflow', '').replace('Unchecked', '')
        if a[0] == 'int' and b[0] == 'int':
            x, y = a[1], b[1]
            lo, hi = int_range(aty) if aty['k'] == 'int' else (0, USIZE_MAX)
            width = aty.get('bits', 64)
            if base in ('Add', 'Sub', 'Mul'):
                if base == 'Add':
                    r = x + y
                elif base == 'Sub':
                    r = x - y
                else:
                    if y.is_const():
                        r = x.scale(y.const)
                    elif x.is_const():
                        r = y.scale(x.const)
                    else:
                        self.note_unmodelled('mul of two non-constants')
                        r = None
                if op.endswith('WithOverflow'):
                    if r is None:
                        res = self.fresh_int(w, aty, 'mul')
                        return ('agg', (res, ('bool', ('opq', ('mulovf', Obj.fresh())))))
                    return ('agg', (('int', r), ('bool', ('ovf', r, lo, hi))))
                if r is None:
                    return self.fresh_int(w, aty, 'mul')
                if self.cfg.get('plain_arith_obligations', True) and not op.endswith('Unchecked'):
                    # unchecked (release-profile) arithmetic: a wrap is silent, so staying in range is an obligation of its own
                    if self.in_range(w, r, lo, hi):
                        self.passed(frame, site, 'overflow', f"{base} stays in [{lo},{hi}] (wrapping arithmetic)")
                    else:
                        self.obligation(w, frame, site, 'overflow', [le(Lin.c(lo), r), le(r, Lin.c(hi))],
                                        f"{base} {x.pretty()} , {y.pretty()} stays in [{lo},{hi}] (wrapping arithmetic)")
                return ('int', r)
            if base in ('Eq', 'Ne', 'Lt', 'Le', 'Gt', 'Ge'):
                m = {'Eq': ('eq', x, y), 'Ne': ('ne', x, y), 'Lt': ('lt', x, y), 'Le': ('le', x, y),
                     'Gt': ('lt', y, x), 'Ge': ('le', y, x)}[base]
                return ('bool', ('cmp',) + m)
            if base == 'BitAnd':
                if x.is_const() and not y.is_const():
                    x, y = y, x
                if y.is_const():
                    m = y.const
                    if x.is_const():
                        return vint(x.const & m)
                    if m == 0:
                        return vint(0)
                    # contiguous mask?
                    s = (m & -m).bit_length() - 1
                    e = m.bit_length()
                    if m == (2 ** e - 1) ^ (2 ** s - 1) and lo >= 0:
                        h, q, l = self.decompose_bits(w, x, s, e, width)
                        return ('int', q.scale(2 ** s))
                res = self.fresh_int(w, aty, 'and', defn=('band', x, y))
                return res
            if base in ('Shr', 'Shl'):
                if y.is_const() and lo >= 0:
                    n = y.const
                    if x.is_const():
                        return vint((x.const >> n) if base == 'Shr' else ((x.const << n) & (2 ** width - 1)))
                    if base == 'Shr':
                        h, q, l = self.decompose_bits(w, x, n, width, width)
                        return ('int', q)
                    # Shl: high bits are shifted out - unless there are none (`u16::from(byte) << 8`)
                    xb = w.store.quick_bounds(x)
                    if 0 <= n < width and xb[0] is not None and xb[1] is not None and xb[0] >= 0 and xb[1] < 2 ** (width - n):
                        return ('int', x.scale(2 ** n))
                    h, q, l = self.decompose_bits(w, x, 0, width - n, width)
                    return ('int', q.scale(2 ** n))
                return self.fresh_int(w, aty, base.lower(), defn=(base.lower(), x, y))
            if base in ('BitOr', 'BitXor'):
                if x.is_const() and y.is_const():
                    return vint((x.const | y.const) if base == 'BitOr' else (x.const ^ y.const))
                if base == 'BitOr' and lo >= 0:
                    # operands with disjoint possible-one bits: x | y == x + y
                    for (cst, oth) in ((x, y), (y, x)):
                        if cst.is_const() and cst.const >= 0:
                            if cst.const == 0:
                                return ('int', oth)
                            lowbit = cst.const & -cst.const
                            ohi = w.store.quick_bounds(oth)[1]
                            olo = w.store.quick_bounds(oth)[0]
                            if ohi is not None and olo is not None and olo >= 0 and ohi < lowbit:
                                return ('int', cst + oth)
                if base == 'BitOr' and lo >= 0:
                    # `(hi << 8) | lo`: one operand is a multiple of 2^s, the other stays below 2^s: disjoint bits, x | y == x + y
                    for (p_, q_) in ((x, y), (y, x)):
                        if not p_.terms:
                            continue
                        g_ = abs(p_.const)
                        for _, k_ in p_.terms:
                            g_ |= abs(k_)
                        low_ = g_ & -g_                      # largest power of two dividing every coefficient
                        qb = w.store.quick_bounds(q_)
                        pb = w.store.quick_bounds(p_)
                        if low_ > 1 and qb[0] is not None and qb[1] is not None and qb[0] >= 0 and qb[1] < low_ and pb[0] is not None and pb[0] >= 0:
                            word = self._as_be_word(w, p_ + q_)
                            return ('int', word if word is not None else p_ + q_)
                res = self.fresh_int(w, aty, base.lower(), defn=(base.lower(), x, y))
                if lo >= 0:
                    # both operands below 2^k  =>  x|y , x^y below 2^k
                    hx, hy = w.store.quick_bounds(x)[1], w.store.quick_bounds(y)[1]
                    if hx is not None and hy is not None:
                        kbits = max(hx, hy, 0).bit_length()
                        w.store = w.store.add(le(res[1], Lin.c(2 ** kbits - 1)))
                if base == 'BitOr' and lo >= 0:
                    # x|y >= max(x,y) and <= x+y
                    r = res[1]
                    w.store = w.store.add(le(x, r), le(y, r), le(r, x + y))
                return res
            if base in ('Div', 'Rem'):
                if y.is_const() and y.const > 0 and lo >= 0:
                    c = y.const
                    if x.is_const():
                        return vint(x.const // c if base == 'Div' else x.const % c)
                    qa = ATOMS.fresh('quot', 0, hi, defn=('div', x, c), key=('div', x, c))
                    ra = ATOMS.fresh('rem', 0, c - 1, defn=('rem', x, c), key=('rem', x, c))
                    w.store = w.store.add_eq(x, Lin.atom(qa).scale(c) + Lin.atom(ra))
                    return ('int', Lin.atom(qa) if base == 'Div' else Lin.atom(ra))
                if lo >= 0:
                    # x / y, x % y with symbolic divisor y>0 :  rem < y, rem <= x, quot <= x
                    key = ('divsym', x, y)
                    qa = ATOMS.fresh('quot', 0, hi, defn=('div', x, y), key=key + ('q',))
                    ra = ATOMS.fresh('rem', 0, hi, defn=('rem', x, y), key=key + ('r',))
                    w.store = w.store.add(lt(Lin.atom(ra), y), le(Lin.atom(ra), x), le(Lin.atom(qa), x))
                    return ('int', Lin.atom(qa) if base == 'Div' else Lin.atom(ra))
                return self.fresh_int(w, aty, base.lower())
            self.note_unmodelled(f"int binop {op}")
            return ('top', None, 'binop', op)
        if a[0] == 'bool' and b[0] == 'bool':
            fa, fb = a[1], b[1]
            if base == 'BitAnd':
                return ('bool', ('and', fa, fb))
            if base == 'BitOr':
                return ('bool', ('not', ('and', ('not', fa), ('not', fb))))
            if base in ('Eq', 'Ne'):
                if fa[0] == 'c' and fb[0] == 'c':
                    return vbool((fa[1] == fb[1]) == (base == 'Eq'))
                if fb[0] == 'c':
                    f = fa if fb[1] else ('not', fa)
                    return ('bool', f if base == 'Eq' else ('not', f))
                if fa[0] == 'c':
                    f = fb if fa[1] else ('not', fb)
                    return ('bool', f if base == 'Eq' else ('not', f))
            return ('bool', ('opq', ('boolop', Obj.fresh())))
        if a[0] == 'disc' and b[0] == 'disc' and base in ('Eq', 'Ne'):
            return ('bool', ('opq', ('disceq', Obj.fresh())))
        if a[0] == 'disc' and b[0] == 'int' and b[1].is_const() and base in ('Eq', 'Ne'):
            var = self.discr_to_variant(a[2], b[1].const)
            f = ('var', a[1], frozenset([var]))
            return ('bool', f if base == 'Eq' else ('not', f))
        self.note_unmodelled(f"binop {op} on {a[0]},{b[0]}")
        return ('top', None, 'binop', op)

    def discr_to_variant(self, adtname, discr):
        a = self.adt(adtname)
        if a:
            for v in a['variants']:
                if int(v['discr']) == discr:
                    return v['idx']
        return discr

    def eval_cast(self, w, frame, rv, v, site):
        kind = rv['kind']
        to = rv['to']
        frm = rv['from']
        if kind == 'IntToInt':
            if v[0] == 'disc':
                return self.fresh_int(w, to, 'discr')
            if v[0] == 'bool':
                f = v[1]
                if f[0] == 'c':
                    return vint(1 if f[1] else 0)
                return self.fresh_int(w, dict(to, bits=1, signed=False), 'b2i')
            if v[0] != 'int':
                return self.fresh_int(w, to, 'cast')
            lo, hi = int_range(to)
            if self.in_range(w, v[1], lo, hi):
                return v
            a = ATOMS.fresh('trunc', lo, hi, defn=('trunc', v[1], to['bits']))
            self.rec(frame, site[1], 'event', site, ('lossy_cast', v[1], to['s'], frm['s'], w.fork()))
            w.event(('lossy_cast', site, v[1], to['s']))
            return ('int', Lin.atom(a))
        if kind.startswith('PointerCoercion'):
            if 'Unsize' in kind:
                pointee = frm.get('to') or {}
                if v[0] == 'ref' and pointee.get('k') == 'array':
                    return ('slice', v[1], Lin.c(0), Lin.c(pointee['len']))
                return v
            return v
        if kind in ('Transmute', 'PtrToPtr'):
            if v[0] == 'boxptr':
                return ('slice', Loc(v[1]), Lin.c(0), self.seq_len(w, v[1]))
            return v
        self.note_unmodelled(f"cast {kind}")
        return ('top', reg_ty(to), 'cast', kind)

    def eval_rvalue(self, w, frame, rv, site):
        r = rv['r']
        if r == 'use':
            return self.eval_operand(w, frame, rv['op'])
        if r in ('ref', 'rawptr'):
            cur = self.resolve_place(w, frame, rv['place'])
            if cur[0] == 'loc':
                # reference to an array place that is later unsized keeps its Loc
                return ('ref', cur[1])
            return ('slice', cur[1], cur[2], cur[3])
        if r == 'cast':
            v = self.eval_operand(w, frame, rv['op'])
            return self.eval_cast(w, frame, rv, v, site)
        if r == 'binop':
            a = self.eval_operand(w, frame, rv['a'])
            b = self.eval_operand(w, frame, rv['b'])
            return self.eval_binop(w, frame, rv['op'], a, b, rv['aty'], site)
        if r == 'unop':
            a = self.eval_operand(w, frame, rv['a'])
            op = rv['op']
            if op == 'Not':
                if a[0] == 'bool':
                    f = a[1]
                    if f[0] == 'c':
                        return vbool(not f[1])
                    return ('bool', ('not', f))
                return self.fresh_int(w, rv['ty'], 'not') if rv['ty']['k'] == 'int' else ('top', None, 'unop', op)
            if op == 'Neg':
                if a[0] == 'int':
                    return ('int', -a[1])
            if op == 'PtrMetadata':
                if a[0] == 'slice':
                    return ('int', a[3])
                if a[0] == 'boxptr':
                    return ('int', self.seq_len(w, a[1]))
                return UNIT if rv['ty']['k'] == 'tuple' else self.fresh_int(w, rv['ty'], 'meta')
            self.note_unmodelled(f"unop {op}")
            return ('top', reg_ty(rv['ty']), 'unop', op)
        if r == 'discriminant':
            cur = self.resolve_place(w, frame, rv['place'])
            if cur[1].root[0] != 'L':
                self.rec(frame, site[1], 'event', site, ('disc_read', cur[1], self.partition(w), w.fork()))
            # looking at an unmodified copy (`match (label_type, self.last_label)`) is looking at the original
            src_, hops_ = w.alias.get((cur[1].root, cur[1].path)) if w.alias else None, 0
            while src_ is not None and hops_ < 4:
                if src_.root[0] != 'L':
                    self.rec(frame, site[1], 'event', site, ('disc_read', src_, self.partition(w), w.fork()))
                src_, hops_ = w.alias.get((src_.root, src_.path)), hops_ + 1
            return ('disc', cur[1], rv['pty'].get('name'))
        if r == 'aggregate':
            ops = [self.eval_operand(w, frame, o) for o in rv['ops']]
            kind = rv['kind']
            if kind == 'tuple':
                return ('agg', tuple(ops)) if ops else UNIT
            if kind == 'adt':
                a = self.adt(rv['adt'])
                if a and a['kind'] == 'enum':
                    return ('enum', ((rv['variant'], tuple(ops)),))
                return ('agg', tuple(ops))
            if kind == 'array':
                c = self._cells_as_window(w, ops)
                return ('arr', len(ops), c if c is not None else ('elems', tuple(ops)))
            if kind == 'closure':
                return ('agg', tuple(ops))
            return ('top', reg_ty(rv['ty']), 'aggregate', kind)
        if r == 'copy_for_deref':
            return self.read_place(w, frame, rv['place'])
        if r == 'repeat':
            v = self.eval_operand(w, frame, rv['op'])
            ty = rv['ty']
            if ty['k'] == 'array':
                return ('arr', ty['len'], ('repeat', v))
        self.note_unmodelled(f"rvalue {r}")
        return ('top', reg_ty(rv['ty']), 'rvalue', r)

    # ------------------------------------------------------------------ obligations / branching
    def site_of(self, frame, bb, idx, span):
        return (frame.body.key, bb, idx, span['line'], span['file'])

    def obligation(self, w, frame, site, okind, cons, desc, extra=None):
        """record a proof obligation (all of `cons`, each e<=0, must be entailed) and assume it."""
        ok = all(w.store.entails(c) for c in cons)
        data = {'okind': okind, 'ok': ok, 'desc': desc}
        if not ok:
            failing = [c for c in cons if not w.store.entails(c)]
            if (frame.body.key in self.cfg.get('decline_loop_obligations_in', ()) or getattr(self, 'root_key', None) in self.cfg.get('decline_loop_obligations_in', ())) and \
                    all(self._loop_dependent(w, c) for c in failing):
                data['declined'] = 'depends on a loop-carried quantity (relational loop invariant out of reach)'
            data['needs'] = [f"{c.pretty()} <= 0" for c in failing]
            data['state'] = self.describe_store(w, failing)
            data['part'] = self.partition(w)
        if extra:
            data.update(extra)
            if 'of' in extra:
                data['W'] = w.fork()
        self.rec(frame, site[1], 'ob', site, data)
        if not ok:
            w.store = w.store.add(*cons)
            ats = set()
            for c in cons:
                ats.update(c.atoms())
            if w.store.bottom_after(ats):
                w.dead = True
        return ok

    def _loop_dependent(self, w, c):
        """does deciding constraint c need a quantity accumulated in a loop?  Either c mentions one, or what the store knows about
        the atoms of c is (transitively) tied to one - `range 7..9 within len(buffer)` when all that is known about len(buffer) is
        `len(buffer) >= 4 + sum of the extension lengths`"""
        if any(a in self.loop_atoms for a in c.atoms()):
            return True
        if not self.cfg.get('decline_transitive'):
            return False
        from lin import _relevant
        rel, _ = _relevant(w.store.cons, set(c.atoms()))
        return any(a in self.loop_atoms for r_ in rel for a in r_.atoms())

    def fail(self, w, frame, site, okind, desc, extra=None):
        data = {'okind': okind, 'ok': False, 'desc': desc, 'needs': [], 'state': self.describe_store(w, []), 'part': self.partition(w)}
        if extra:
            data.update(extra)
        self.rec(frame, site[1], 'ob', site, data)

    def passed(self, frame, site, okind, desc):
        self.rec(frame, site[1], 'ob', site, {'okind': okind, 'ok': True, 'desc': desc})

    def describe_store(self, w, failing):
        atoms = set()
        for c in failing:
            atoms.update(c.atoms())
        from lin import _relevant
        if not failing:
            return [f"{c!r} <= 0" for c in sorted(w.store.cons, key=repr)][:60]
        rel, _ = _relevant(w.store.cons, atoms)
        out = [f"{c.pretty()} <= 0" for c in rel][:int(os.environ.get('VERIF_STATE_N', '12'))]
        return out

    def assume(self, w, form, truth):
        """refine world w with `form == truth`; returns False if infeasible"""
        k = form[0]
        if k == 'c':
            return form[1] == truth
        if k == 'not':
            return self.assume(w, form[1], not truth)
        if k == 'and':
            if truth:
                return self.assume(w, form[1], True) and self.assume(w, form[2], True)
            d1 = self.decide(w, form[1])
            d2 = self.decide(w, form[2])
            if d1 is False or d2 is False:
                return True
            if d1 is True:
                return self.assume(w, form[2], False)
            if d2 is True:
                return self.assume(w, form[1], False)
            return self.set_fact(w, ('form', form), False)
        if k == 'cmp':
            op, a, b = form[1], form[2], form[3]
            if not truth:
                op = {'eq': 'ne', 'ne': 'eq', 'lt': 'ge', 'le': 'gt'}[op]
            if op == 'ge':
                op, a, b = 'le', b, a
            elif op == 'gt':
                op, a, b = 'lt', b, a
            if op == 'eq':
                w.store = w.store.add_eq(a, b)
            elif op == 'lt':
                w.store = w.store.add(lt(a, b))
            elif op == 'le':
                w.store = w.store.add(le(a, b))
            elif op == 'ne':
                if w.store.entails(le(a, b)):
                    w.store = w.store.add(lt(a, b))
                elif w.store.entails(le(b, a)):
                    w.store = w.store.add(lt(b, a))
                else:
                    d = a - b
                    if not self.set_fact(w, ('ne', d if d.terms and d.terms[0][1] > 0 else -d), True):
                        return False
            if w.store.bottom_after((a - b).atoms()):
                return False
            if op == 'eq':
                self.propagate_eq(w, a, b)
            return True
        if k == 'opq':
            return self.set_fact(w, form[1], truth)
        if k == 'var':
            loc, vs = form[1], form[2]
            return self.refine_variant(w, loc, vs, truth)
        if k == 'ovf':
            lin, lo, hi = form[1], form[2], form[3]
            if truth:
                return True    # overflow happened: nothing representable
            w.store = w.store.add(le(Lin.c(lo), lin), le(lin, Lin.c(hi)))
            return not w.store.bottom_after(lin.atoms())
        return True

    def set_fact(self, w, key, truth):
        cur = w.facts.get(key)
        if cur is not None:
            return cur == truth
        w.facts[key] = truth
        return True

    def decide(self, w, form):
        """True / False / None"""
        k = form[0]
        if k == 'c':
            return form[1]
        if k == 'not':
            d = self.decide(w, form[1])
            return None if d is None else (not d)
        if k == 'and':
            d1 = self.decide(w, form[1])
            d2 = self.decide(w, form[2])
            if d1 is False or d2 is False:
                return False
            if d1 is True and d2 is True:
                return True
            return None
        if k == 'cmp':
            op, a, b = form[1], form[2], form[3]
            if op == 'lt':
                if w.store.entails(lt(a, b)):
                    return True
                if w.store.entails(le(b, a)):
                    return False
            elif op == 'le':
                if w.store.entails(le(a, b)):
                    return True
                if w.store.entails(lt(b, a)):
                    return False
            elif op in ('eq', 'ne'):
                r = None
                if w.store.entails_eq(a, b):
                    r = True
                elif w.store.entails(lt(a, b)) or w.store.entails(lt(b, a)):
                    r = False
                else:
                    d = a - b
                    if w.facts.get(('ne', d if d.terms and d.terms[0][1] > 0 else -d)):
                        r = False
                if r is None:
                    return None
                return r if op == 'eq' else (not r)
            return None
        if k == 'opq':
            return w.facts.get(form[1])
        if k == 'var':
            v = self.read(w, form[1])
            if v[0] == 'enum':
                alts = set(a for a, _ in v[1])
                if alts <= form[2]:
                    return True
                if not (alts & form[2]):
                    return False
            return None
        if k == 'ovf':
            if self.in_range(w, form[1], form[2], form[3]):
                return False
            return None
        return None

    def refine_variant(self, w, loc, vs, keep):
        v = self.read(w, loc)
        if v[0] != 'enum':
            return True
        alts = tuple((a, f) for a, f in v[1] if ((a in vs) == keep))
        if not alts:
            return False
        if len(alts) != len(v[1]):
            new = ('enum', alts)
            src = w.alias.get((loc.root, loc.path)) if w.alias else None
            self.write(w, loc, new)
            if src is not None and src.root in w.mem:
                # the refined value is an unmodified copy of another place (`match (kind, label_type)`, an enum handed to a
                # helper by value): the place it was copied from learns the same
                try:
                    sv = self.read(w, src)
                except AnalysisError:
                    sv = None
                if sv == v:
                    self.refine_variant(w, src, vs, keep)
                    w.alias[(loc.root, loc.path)] = src
            if self._has_identity(v):
                # copies of the same value (a `Copy` enum passed on by value, moved into a helper, stored in a ghost) learn the
                # same thing: payloads carry the identity of the unknown they came from, so structural equality means "same value"
                for root, ov in list(w.mem.items()):
                    if ov == v:
                        w.mem[root] = new
                    elif ov[0] == 'agg' and v in ov[1]:
                        w.mem[root] = ('agg', tuple(new if x == v else x for x in ov[1]))
            if w.alias:
                # ... and unmodified copies of the refined place learn it too
                for (croot, cpath), csrc in list(w.alias.items()):
                    if csrc == loc and croot in w.mem and (croot, cpath) != (loc.root, loc.path):
                        cl = Loc(croot, cpath)
                        try:
                            cv = self.read(w, cl)
                        except AnalysisError:
                            continue
                        if cv == v:
                            if cpath:
                                self.write(w, cl, new)
                            else:
                                w.mem[croot] = new
                            w.alias[(croot, cpath)] = csrc
            rh = self.cfg.get('refine_hook')
            if rh:
                rh(self, w, loc, new)
        return True

    def _has_identity(self, v):
        for _, fs in v[1]:
            for x in fs:
                if x[0] == 'arr' and x[2][0] in ('unknown', 'bytes_of'):
                    return True
                if x[0] == 'int' and not x[1].is_const():
                    return True
        return False

    def propagate_eq(self, w, a, b):
        """after a == b: when this pins a single atom to a constant, substitute it in values of
        named single-assignment locals (keeps partitions apart, see DESIGN E2/ENUM)."""
        d = a - b
        if len(d.terms) != 1:
            return
        (atom, coef), = d.terms
        if abs(coef) != 1:
            return
        val = -d.const * coef
        tgt = ('int', Lin.atom(atom))
        cv = vint(val)
        for root, v in list(w.mem.items()):
            if v == tgt:
                w.mem[root] = cv
            elif v[0] == 'agg' and tgt in v[1]:
                w.mem[root] = ('agg', tuple(cv if x == tgt else x for x in v[1]))

    # ------------------------------------------------------------------ statements
    def exec_stmt(self, w, frame, bb, idx, st):
        k = st['s']
        site = self.site_of(frame, bb, idx, st['span'])
        if k == 'assign':
            v = self.eval_rvalue(w, frame, st['rv'], site)
            self.assign(w, frame, st['place'], v, site)
            self.note_copies(w, frame, st['place'], st['rv'], v)
        elif k == 'storage_dead':
            w.mem.pop(self.local_root(frame, st['local']), None)
        elif k == 'storage_live':
            w.mem[self.local_root(frame, st['local'])] = MOVED
        elif k == 'set_discriminant':
            cur = self.resolve_place(w, frame, st['place'])
            v = self.read(w, cur[1])
            if v[0] == 'enum':
                alts = tuple((a, f) for a, f in v[1] if a == st['variant']) or ((st['variant'], ()),)
                self.write(w, cur[1], ('enum', alts))
        elif k == 'assume':
            v = self.eval_operand(w, frame, st['op'])
            if v[0] == 'bool':
                self.assume(w, v[1], True)
        else:
            self.note_unmodelled(f"statement {k}")

    def _cells_as_window(self, w, ops):
        """`[s[k], s[k+1], .., s[k+n-1]]` (a slice pattern `&[a, b, c]` rebuilt as an array): the bytes of the window
        s[k..k+n) of an object that was not written - the same value `s[k..k+n].try_into()` gives"""
        if not (2 <= len(ops) <= 16) or not all(o[0] == 'int' and len(o[1].terms) == 1 and o[1].const == 0 and o[1].terms[0][1] == 1 for o in ops):
            return None
        infos = [ATOMS.info(o[1].terms[0][0]).defn for o in ops]
        if not all(d and d[0] == 'elem' and d[1] == infos[0][1] for d in infos):
            return None
        if not all(infos[i][2] == infos[0][2] + i for i in range(len(infos))):
            return None
        tag = infos[0][1]
        roots = [r for r, v in w.mem.items() if v[0] == 'seq' and v[4] == tag]
        if len(roots) != 1 or roots[0] in w.written:
            return None
        return ('bytes_of', Loc(roots[0]), infos[0][2])

    def _as_be_word(self, w, r):
        """r == 256^(n-1)·s[k] + .. + s[k+n-1] over consecutive cells of one unwritten object: the big-endian word that
        `from_be_bytes(s[k..k+n])` denotes (same atom), else None"""
        if r.const != 0 or len(r.terms) not in (2, 4, 8):
            return None
        n = len(r.terms)
        ts = sorted(r.terms, key=lambda t: -t[1])
        if [k for _, k in ts] != [256 ** (n - 1 - i) for i in range(n)]:
            return None
        infos = [ATOMS.info(a).defn for a, _ in ts]
        if not all(d and d[0] == 'elem' and d[1] == infos[0][1] for d in infos):
            return None
        if not all(infos[i][2] == infos[0][2] + i for i in range(n)):
            return None
        tag = infos[0][1]
        roots = [rt for rt, v in w.mem.items() if v[0] == 'seq' and v[4] == tag]
        if len(roots) != 1 or roots[0] in w.written:
            return None
        key = ('be', Loc(roots[0]), infos[0][2], n)
        at = ATOMS.fresh(f"be{n*8}({w.name_of(roots[0])}[{infos[0][2].pretty()}..])", 0, 256 ** n - 1, defn=key, key=key)
        w.store = w.store.add_eq(Lin.atom(at), r)
        return Lin.atom(at)

    def _multi_enum(self, v):
        return v[0] == 'enum' and len(v[1]) > 1

    def _operand_loc(self, w, frame, o):
        if o.get('o') not in ('copy', 'move'):
            return None
        try:
            cur = self.resolve_place(w, frame, o['place'])
        except AnalysisError:
            return None
        return cur[1] if cur[0] == 'loc' else None

    def note_copies(self, w, frame, place, rv, v):
        """remember that an undecided enum value just stored is a copy of another place (see refine_variant)"""
        r = rv.get('r')
        if r == 'use' and self._multi_enum(v):
            pairs = [((), rv.get('op'))]
        elif r == 'aggregate' and v[0] == 'agg' and rv.get('ops') and len(rv['ops']) == len(v[1]):
            pairs = [((('f', i),), o) for i, o in enumerate(rv['ops']) if self._multi_enum(v[1][i])]
        else:
            return
        if not pairs:
            return
        try:
            cur = self.resolve_place(w, frame, place)
        except AnalysisError:
            return
        if cur[0] != 'loc':
            return
        for path, o in pairs:
            src = self._operand_loc(w, frame, o) if o else None
            if src is not None and src.root != cur[1].root:
                w.alias[(cur[1].root, cur[1].path + path)] = src

    def assign(self, w, frame, place, v, site):
        cur = self.resolve_place(w, frame, place)
        if cur[0] != 'loc':
            raise AnalysisError("assignment to slice place")
        loc = cur[1]
        self.write(w, loc, v)
        if loc.root[0] != 'L':
            # a store into caller-visible memory
            self.rec(frame, site[1], 'event', site, ('store', loc, v, self.key_desc(w), w.fork()))
            sh = self.cfg.get('store_hook')
            if sh:
                sh(self, w, frame, site, loc, v)
            if loc.path and loc.path[-1][0] == 'i':
                w.written = w.written | {loc.root}
                wh = self.cfg.get('write_hook')
                if wh:
                    wh(self, w, frame, site, Loc(loc.root, loc.path[:-1]), loc.path[-1][1], Lin.c(1), ('value', v))

    # ------------------------------------------------------------------ terminators
    def exec_term(self, w, frame, bb, term):
        """returns list of (target_bb | 'return', world)"""
        k = term['t']
        site = self.site_of(frame, bb, 't', term['span'])
        if k == 'goto':
            return [(term['target'], w)]
        if k == 'return':
            return [('return', w)]
        if k in ('unreachable', 'resume', 'terminate'):
            return []
        if k == 'switch':
            return self.exec_switch(w, frame, bb, term, site)
        if k == 'assert':
            v = self.eval_operand(w, frame, term['cond'])
            exp = term['expected']
            msg = term['msg']
            if msg['kind'] == 'Other' and ('Misaligned' in msg.get('s', '') or 'NullPointer' in msg.get('s', '')):
                # debug-build pointer checks on references derived from Box / slices: trusted (no unsafe code)
                self.stats['ub_checks_skipped'] = self.stats.get('ub_checks_skipped', 0) + 1
                return [(term['target'], w)]
            desc = self.assert_desc(w, frame, msg)
            if v[0] == 'bool':
                d = self.decide(w, v[1])
                if d is None or d != exp:
                    cons = self.form_constraints(v[1], exp)
                    if cons is not None:
                        self.obligation(w, frame, site, 'assert:' + msg['kind'], cons, desc)
                    else:
                        self.fail(w, frame, site, 'assert:' + msg['kind'], desc)
                    if not self.assume(w, v[1], exp):
                        return []
                else:
                    self.passed(frame, site, 'assert:' + msg['kind'], desc)
            else:
                self.fail(w, frame, site, 'assert:' + msg['kind'], desc)
            return [(term['target'], w)]
        if k == 'drop':
            self.stats['drops_executed'] = self.stats.get('drops_executed', 0) + 1
            cur = self.resolve_place(w, frame, term['place'])
            if cur[0] == 'loc' and cur[1].root in w.mem:
                try:
                    v = self.read(w, cur[1])
                except AnalysisError:
                    v = MOVED
                owned = self.owned_boxes(w, v)
                if owned:
                    self.rec(frame, bb, 'event', site, ('drop', tuple(owned), self.place_name(frame, term['place']), self.key_desc(w)))
                if v[0] != 'moved' and self.has_owned(v):
                    self.write(w, cur[1], MOVED)
            return [(term['target'], w)]
        if k == 'call':
            return self.exec_call(w, frame, bb, term, site)
        self.note_unmodelled(f"terminator {k}")
        return []

    def form_constraints(self, form, truth):
        """constraints equivalent to form==truth, when expressible as a conjunction"""
        k = form[0]
        if k == 'not':
            return self.form_constraints(form[1], not truth)
        if k == 'cmp':
            op, a, b = form[1], form[2], form[3]
            if not truth:
                op = {'eq': 'ne', 'ne': 'eq', 'lt': 'ge', 'le': 'gt'}[op]
            if op == 'lt':
                return [lt(a, b)]
            if op == 'le':
                return [le(a, b)]
            if op == 'ge':
                return [le(b, a)]
            if op == 'gt':
                return [lt(b, a)]
            if op == 'eq':
                return [le(a, b), le(b, a)]
            return None
        if k == 'ovf' and not truth:
            return [le(Lin.c(form[2]), form[1]), le(form[1], Lin.c(form[3]))]
        if k == 'and' and truth:
            a = self.form_constraints(form[1], True)
            b = self.form_constraints(form[2], True)
            if a is not None and b is not None:
                return a + b
        return None

    def assert_desc(self, w, frame, msg):
        kind = msg['kind']
        def ov(o):
            try:
                v = self.eval_operand(w.fork(), frame, o)
                return v[1].pretty() if v[0] == 'int' else v[0]
            except Exception:
                return '?'
        if kind == 'BoundsCheck':
            return f"index {ov(msg['index'])} < len {ov(msg['len'])}"
        if kind == 'Overflow':
            return f"{msg['op']}({ov(msg['a'])}, {ov(msg['b'])}) does not overflow"
        if kind in ('DivisionByZero', 'RemainderByZero'):
            return f"{kind}: divisor {ov(msg['a'])} != 0"
        return kind

    def owned_boxes(self, w, v):
        """list of origins of live storage boxes contained in v"""
        t = v[0]
        if t == 'box':
            return [('box', v[1], v[2])]
        if t == 'agg':
            out = []
            for x in v[1]:
                out += self.owned_boxes(w, x)
            return out
        if t == 'enum':
            out = []
            for _, fs in v[1]:
                for x in fs:
                    out += self.owned_boxes(w, x)
            return out
        if t == 'top' and v[1] and 'Box<[u8]>' in v[1]:
            return [('maybe', v[1], v[2])]
        if t == 'vec':
            sv = w.mem.get(v[1])
            if sv and sv[2] and 'Box<[u8]>' in sv[2]:
                return [('vec-of-boxes', v[1], sv[4])]
        return []

    def exec_switch(self, w, frame, bb, term, site):
        v = self.eval_operand(w, frame, term['discr'])
        cases = [(int(c[0]), c[1]) for c in term['cases']]
        other = term['otherwise']
        out = []
        if v[0] == 'bool':
            f = v[1]
            for val, tgt in cases:
                w2 = w.fork()
                if self.assume(w2, f, bool(val)):
                    out.append((tgt, w2))
            # otherwise = the remaining boolean value
            rem = [b for b in (0, 1) if b not in [c[0] for c in cases]]
            for b in rem:
                w2 = w.fork()
                if self.assume(w2, f, bool(b)):
                    out.append((other, w2))
            return out
        if v[0] == 'disc':
            loc, adt = v[1], v[2]
            ev = self.read(w, loc)
            if ev[0] != 'enum':
                # unknown enum: all targets possible
                return [(t, w.fork()) for t in sorted(set([c[1] for c in cases] + [other]))]
            alts = [a for a, _ in ev[1]]
            used = set()
            for val, tgt in cases:
                var = self.discr_to_variant(adt, val)
                used.add(var)
                if var in alts:
                    w2 = w.fork()
                    self.refine_variant(w2, loc, frozenset([var]), True)
                    out.append((tgt, w2))
            rest = [a for a in alts if a not in used]
            if rest:
                # one world per remaining variant (keeps partitions exact)
                tb = frame.body.blocks[other]
                if tb['term']['t'] == 'unreachable' and not tb['stmts']:
                    pass
                else:
                    for a in rest:
                        w2 = w.fork()
                        self.refine_variant(w2, loc, frozenset([a]), True)
                        out.append((other, w2))
            return out
        if v[0] == 'int':
            x = v[1]
            for val, tgt in cases:
                w2 = w.fork()
                if self.assume(w2, ('cmp', 'eq', x, Lin.c(val)), True):
                    # pin the switched local itself when it is a plain copy
                    out.append((tgt, w2))
            w2 = w.fork()
            if self.exclude_values(w2, x, [c[0] for c in cases]):
                out.append((other, w2))
            return out
        # unknown discriminant
        self.note_unmodelled(f"switch on {v[0]}")
        return [(t, w.fork()) for t in sorted(set([c[1] for c in cases] + [other]))]

    def exclude_values(self, w, x, vals):
        vals = set(vals)
        if x.is_const():
            return x.const not in vals
        for _ in range(len(vals) + 1):
            lo, hi = w.store.bounds(x)
            changed = False
            if lo is not None and lo in vals:
                w.store = w.store.add(le(Lin.c(lo + 1), x))
                changed = True
            if hi is not None and hi in vals:
                w.store = w.store.add(le(x, Lin.c(hi - 1)))
                changed = True
            if w.store.is_bottom():
                return False
            if not changed:
                break
        for v in vals:
            d = x - Lin.c(v)
            self.set_fact(w, ('ne', d if d.terms and d.terms[0][1] > 0 else -d), True)
        return True

    # ------------------------------------------------------------------ calls
    def exec_call(self, w, frame, bb, term, site):
        f = self.eval_operand(w, frame, term['func'])
        args = [self.eval_operand(w, frame, a) for a in term['args']]
        target = term['target']
        dest_ty = term['dest_ty']
        if f[0] != 'fn':
            self.note_unmodelled('indirect call')
            results = [(w, ('top', reg_ty(dest_ty), ('call', 'indirect'), 'ret'))]
        else:
            fn = f[1]
            results = self.call_fn(w, frame, bb, term, site, fn, args, dest_ty)
        out = []
        if target is None:
            # diverging call: every feasible world reaching it is a panic
            return []
        rh = None
        if f[0] == 'fn':
            fnj = f[1]
            rh = self.cfg.get('ret_hooks', {}).get(strip_generics(fnj.get('resolved') or fnj['name'])) or \
                self.cfg.get('ret_hooks', {}).get(strip_generics(fnj['name']))
        dh = None
        if f[0] == 'fn' and self.cfg.get('dest_hooks'):
            fnj = f[1]
            dh = self.cfg['dest_hooks'].get(strip_generics(fnj.get('resolved') or fnj['name'])) or self.cfg['dest_hooks'].get(strip_generics(fnj['name']))
        for (w2, rv) in results:
            if rh:
                rh(self, w2, frame, site, args, rv)
            self.assign(w2, frame, term['dest'], rv, site)
            if dh:
                cur = self.resolve_place(w2, frame, term['dest'])
                if cur[0] == 'loc':
                    dh(self, w2, frame, site, cur[1])      # where the result now lives (later matches refine that place)
            out.append((target, w2))
        return out

    def call_fn(self, w, frame, bb, term, site, fn, args, dest_ty):
        import stdsum
        name = fn.get('resolved') or fn['name']
        key = strip_generics(name)
        self.rec(frame, bb, 'event', site, ('call', key, strip_generics(fn['name']), tuple(args), self.key_desc(w), w.fork()))
        hook = self.cfg.get('call_hooks', {}).get(key) or self.cfg.get('call_hooks', {}).get(strip_generics(fn['name']))
        if hook:
            hook(self, w, frame, site, key, args)
        # a function item (or tuple-variant constructor) used as a function value: `<fn item as Fn*>::call*(f, (a, b))`
        if fn.get('trait') in FN_TRAITS and args and args[0][0] == 'ref' and len(args) == 2 and args[0][1].root in w.mem:
            fv = self.read(w, args[0][1])
            if fv[0] == 'fn':
                args = [fv, args[1]]        # `call_mut(&mut f, ..)` on a function item held in a variable
        if fn.get('trait') in FN_TRAITS and args and args[0][0] == 'fn' and len(args) == 2:
            tup = args[1]
            if tup[0] == 'top':
                tup = self.deep_expand(w, tup)
            rest = list(tup[1]) if tup[0] == 'agg' else ([] if tup == UNIT else None)
            if rest is not None:
                return self.call_fn(w, frame, bb, term, site, args[0][1], rest, dest_ty)
        ov = self.cfg.get('call_override', {}).get(key)
        if ov:
            res = ov(self, w, frame, site, args)
            if res is not None:
                return res
        # panics
        if stdsum.is_panic(key):
            self.fail(w, frame, site, 'panic', f"reachable call to {key}", {'macros': term['span'].get('macros')})
            return []
        # in-crate body: abstract inlining
        body = self.facts.bodies.get(name)
        if fn.get('mono_key') and self.facts.ext.get(fn['mono_key']) is not None:
            # in-crate function with const generic parameters, called with concrete ones: interpret the monomorphised instance
            # (array lengths are known there), not the generic body
            body = self.facts.ext[fn['mono_key']]
        if body is None and fn.get('trait'):
            impl = self.trait_impls.get(strip_generics(fn['name']))
            if impl:
                body = self.facts.body(impl)
        if body is None and fn.get('ikind') == 'closure_once_shim' and fn.get('targs') and fn['targs'][0].get('k') == 'closure':
            # `FnOnce::call_once` on a closure whose own kind is Fn / FnMut (a closure bound to a variable first): the
            # compiler's shim takes the closure by value and calls its body with a reference to it
            body = self.facts.bodies.get(fn['targs'][0].get('name'))
            if body is not None and body.def_kind != 'Closure':
                body = None
        if body is not None and body.def_kind == 'Closure' and fn.get('trait') in FN_TRAITS:
            return self.call_closure(w, frame, bb, site, body, args)
        if body is not None and not body.derived and key not in self.cfg.get('no_inline', ()):
            srcs = None
            if term.get('args') is not None and len(term['args']) == len(args) and any(self._multi_enum(a) for a in args):
                # an undecided enum handed over by value: the parameter is a copy of the caller's place
                srcs = [self._operand_loc(w, frame, o) if self._multi_enum(a) else None for o, a in zip(term['args'], args)]
                if any(sl is not None and self.read(w, sl) != a for sl, a in zip(srcs, args)):
                    srcs = None           # the arguments were rearranged on the way (closure call, function value)
            return self.inline(w, frame, bb, site, body, args, arg_srcs=srcs)
        if body is not None and body.def_kind == 'Closure' and fn.get('trait') in FN_TRAITS:
            return self.call_closure(w, frame, bb, site, body, args)
        res = stdsum.dispatch(self, w, frame, site, fn, key, args, term)
        if res is not None:
            return res
        # core/alloc function without a summary: interpret its (monomorphised) MIR; if it contains anything the
        # interpreter has no transfer function for, undo the attempt and fall back to an unknown result
        ebody = self.facts.ext.get(fn.get('ext_key')) if fn.get('ext_key') else None
        if ebody is not None and not self.cfg.get('no_ext_inline'):
            eargs = args
            if ebody.def_kind == 'Closure' and fn.get('trait') in FN_TRAITS:
                # a closure defined in core (`|a, b| a + b` of `Sum::sum`, the closure `map_fold` builds): `call*(closure, (a, b))`
                w, eargs = self.closure_args(w, ebody, args)
            res = self.try_ext_inline(w, frame, bb, site, ebody, eargs, key)
            if res is not None:
                return res
        # unknown callee: result unknown, owned arguments are consumed by it
        self.note_unmodelled(f"call {key}")
        esc = []
        for a in args:
            esc += self.owned_boxes(w, a)
        if esc:
            # a storage buffer handed by value to a function without a summary: whether it survives is not decided
            self.rec(frame, bb, 'event', site, ('escape', tuple(esc), key, self.key_desc(w)))
        if dest_ty['k'] == 'int':
            if key in self.cfg.get('pure_calls', ()):
                # a function of its arguments only (declared by the rule pack): the same call is the same value, also when the
                # fixpoint executes the block again
                a = ATOMS.fresh(f"{key.split('::')[-1]}()", *int_range(dest_ty), defn=('call', key, tuple(args)), key=('purecall', key, tuple(args)))
            else:
                a = ATOMS.fresh(f"{key.split('::')[-1]}()", *int_range(dest_ty), defn=('call', key, tuple(args)))
            return [(w, ('int', Lin.atom(a)))]
        return [(w, ('top', reg_ty(dest_ty), ('call', key), 'ret'))]

    def merge_cost(self, A, B):
        """how much a join of A and B is expected to lose (heuristic used only to choose which worlds to merge first)"""
        cost = 0
        for c in A.store.cons ^ B.store.cons:
            # a bound on one value survives a merge as an interval / a hole; a relation between two lengths (why a branch was
            # taken) does not
            heavy = len(c.terms) >= 2
            if heavy:
                heavy = False
                for a_, _ in c.terms:
                    d_ = ATOMS.info(a_).defn
                    if not (d_ and d_[0] in ('arr_elem', 'elem', 'be', 'bits_hi', 'bits_mid', 'bits_lo')):
                        heavy = True
                        break
            cost += 4 if heavy else 1
        if A.mem is not B.mem:
            for r_, v_ in A.mem.items():
                if B.mem.get(r_) != v_:
                    cost += 2
        return cost

    def call_closure(self, w, frame, bb, site, body, args):
        """<closure as Fn*>::call*(closure, (a, b, ..)): the body takes (env, a, b, ..); an Fn/FnMut closure called through
        call_once receives its environment by reference"""
        w, cargs = self.closure_args(w, body, args)
        return self.inline(w, frame, bb, site, body, cargs)

    def closure_args(self, w, body, args):
        env = args[0]
        tup = args[1] if len(args) > 1 else UNIT
        if tup[0] == 'agg':
            rest = list(tup[1])
        elif tup == UNIT:
            rest = []
        else:
            tup = self.deep_expand(w, tup) if tup[0] == 'top' else tup
            if tup[0] != 'agg':
                raise AnalysisError('closure call with unknown argument tuple')
            rest = list(tup[1])
        w = w.fork()
        if body.locals[1]['ty']['k'] == 'ref' and env[0] not in ('ref',):
            root = ('O', Obj.fresh())
            w.mem[root] = env
            env = ('ref', Loc(root))
        return w, [env] + rest

    def try_ext_inline(self, w, frame, bb, site, body, args, key):
        snap = dict(self.unmodelled)
        k = (frame.ctx, bb)
        prefix = frame.ctx + ((frame.body.key, bb, 'via', self._inline_seq.get(k, 0)),)
        self._ext_depth = getattr(self, '_ext_depth', 0) + 1
        try:
            rets = self.inline(w, frame, bb, site, body, args)
            ok = self.unmodelled == snap
        except AnalysisError as e:
            if self._ext_depth > 1:
                raise          # let the outermost attempt roll everything back
            rets, ok = None, False
        finally:
            self._ext_depth -= 1
        if ok:
            self.stats['ext_inlined'] = self.stats.get('ext_inlined', 0) + 1
            return rets
        if self._ext_depth > 0:
            raise AnalysisError(f"unsupported construct inside {key}")
        n = len(prefix)
        for rk in [rk for rk in self.records if rk[0][:n] == prefix]:
            del self.records[rk]
        self.unmodelled = snap
        self.stats['ext_declined'] = self.stats.get('ext_declined', 0) + 1
        return None

    def inline(self, w, frame, bb, site, body, args, arg_srcs=None):
        if self.depth > 12:
            raise AnalysisError("inlining depth")
        self.stats['calls_inlined'] += 1
        # one context per inlined activation: several worlds reaching the same call site are analysed
        # separately and must not overwrite each other's records
        k = (frame.ctx, bb)
        n = self._inline_seq.get(k, 0)
        self._inline_seq[k] = n + 1
        ctx = frame.ctx + ((frame.body.key, bb, 'via', n),)
        self.depth += 1
        try:
            rets = self.run_function(body, w, args, ctx, arg_srcs=arg_srcs)
        finally:
            self.depth -= 1
        return rets

    # ------------------------------------------------------------------ function level fixpoint
    def single_assign(self, body):
        sa = self._single_assign.get(body.name)
        if sa is None:
            cnt = {}
            for b in body.blocks:
                for st in b['stmts']:
                    if st['s'] == 'assign' and not st['place']['proj']:
                        cnt[st['place']['local']] = cnt.get(st['place']['local'], 0) + 1
                t = b['term']
                if t['t'] == 'call' and not t['dest']['proj']:
                    cnt[t['dest']['local']] = cnt.get(t['dest']['local'], 0) + 1
            sa = frozenset(l for l, c in cnt.items() if c == 1 and l in body.local_names and l > body.arg_count)
            self._single_assign[body.name] = sa
        return sa

    def run_function(self, body, w, args, ctx, arg_srcs=None):
        """returns list of (world, return value)"""
        fid = Obj.fresh()
        frame = Frame(fid, body, ctx)
        frame.single_assign = self.single_assign(body)
        self.frames[fid] = frame
        self.stats['functions'].add(body.key)
        w = w.fork()
        for i, a in enumerate(args):
            w.mem[('L', fid, i + 1)] = a
            if arg_srcs and i < len(arg_srcs) and arg_srcs[i] is not None:
                w.alias[(('L', fid, i + 1), ())] = arg_srcs[i]
        w.mem[('L', fid, 0)] = MOVED
        rets = self.run_body(frame, w)
        out = []
        for rw in rets:
            if not ctx:
                # root analysis: keep the final values of the parameters for the rule packs
                for i in range(1, body.arg_count + 1):
                    if ('L', fid, i) in rw.mem:
                        rw.mem[('R', i)] = rw.mem[('L', fid, i)]
            rv = rw.mem.get(('L', fid, 0), MOVED)
            for root in [r for r in rw.mem if r[0] == 'L' and r[1] == fid]:
                del rw.mem[root]
            out.append((rw, rv))
        return out

    def tag(self, v, depth=0):
        t = v[0]
        if t == 'bool':
            return ('b', v[1][1]) if v[1][0] == 'c' else None
        if t == 'enum':
            if len(v[1]) == 1:
                var, fs = v[1][0]
                if depth < 3 and fs:
                    sub = tuple(self.tag(x, depth + 1) for x in fs)
                    if any(x is not None for x in sub):
                        return ('v', var, sub)
                return ('v', var)
            return None
        if t == 'agg' and len(v[1]) == 2 and depth == 0 and all(x[0] == 'int' and x[1].is_const() for x in v[1]) \
                and 0 <= v[1][1][1].const - v[1][0][1].const <= 8 and v[1][1][1].const <= 16:
            # `for i in 0..3`: a range with constant bounds and a few steps left unrolls the same way
            return ('it', v[1][0][1].const, v[1][1][1].const)
        if t == 'agg' and depth < 3:
            ts = tuple(self.tag(x, depth + 1) for x in v[1])
            return ts if any(x is not None for x in ts) else None
        if t == 'iter' and v[2].is_const() and v[3].is_const() and 0 <= v[3].const - v[2].const <= 8 and v[3].const <= 16:
            # an iterator over a short sequence of known length: worlds at different positions are kept apart, which
            # unrolls `for x in [a, b, c, d]` instead of widening it
            return ('it', v[2].const)
        return None

    def key_of(self, w, frame, level=0):
        """partition key; level 1 drops the ghosts, level 2 everything (used only when a block would otherwise
        exceed max_worlds: the analysis degrades to coarser partitions instead of giving up)"""
        items = []
        if level >= 2:
            return ()
        for root, v in w.mem.items():
            if root[0] == 'G':
                if level >= 1 or str(root[1]).startswith('~'):
                    continue           # '~' ghosts are bookkeeping values that must not split partitions
                t = self.tag(v)
                if t is not None:
                    items.append((root, t))
                continue
            if root[0] != 'L':
                continue
            t = self.tag(v)
            if t is None and v[0] == 'int' and v[1].is_const():
                # a named value pinned to a constant by a branch (`match h_len { 1 => .. }`, a table lookup split per entry) keeps
                # its worlds apart - in the frame that branched and in the helpers it calls meanwhile
                fr_ = frame if root[1] == frame.fid else (self.frames.get(root[1]) if ALLFRAMES else None)
                if fr_ is not None and root[2] in fr_.single_assign:
                    t = ('i', v[1].const)
            if t is not None:
                items.append((root, t))
        items.sort(key=repr)
        return tuple(items)

    def key_desc(self, w):
        return self.partition(w)

    def partition(self, w):
        """human-readable partition description: named locals with pinned variants/flags"""
        out = []
        for root, v in w.mem.items():
            if root[0] != 'L':
                continue
            fr = self.frames.get(root[1])
            if fr is None:
                continue
            nm = fr.body.local_names.get(root[2])
            if nm is None:
                continue
            t = self.tag(v)
            if t is None and v[0] == 'int' and v[1].is_const():
                t = ('i', v[1].const)
            if t is not None:
                out.append((fr.body.key.split('::')[-1] + '.' + nm, self.tag_str(fr, root[2], v, t)))
        out.sort()
        return tuple(out)

    def tag_str(self, fr, local, v, t):
        if t[0] == 'v':
            ty = fr.body.local_ty(local)
            if ty['k'] == 'adt':
                return self.facts.variant_name(ty['name'], t[1]) + (str(t[2]) if len(t) > 2 else '')
            return str(t[1])
        if t[0] in ('b', 'i', 'it'):
            return str(t[1])
        ty = fr.body.local_ty(local)
        parts = []
        for i, x in enumerate(t):
            if x is None:
                parts.append('_')
            elif x and x[0] == 'v' and ty['k'] == 'tuple' and i < len(ty['of']) and ty['of'][i]['k'] == 'adt':
                parts.append(self.facts.variant_name(ty['of'][i]['name'], x[1]))
            else:
                parts.append(str(x[1]) if len(x) > 1 else str(x))
        return '(' + ','.join(parts) + ')'

    def run_body(self, frame, w0):
        body = frame.body
        rpo = body.rpo()
        order = {b: i for i, b in enumerate(rpo)}
        heads = body.loop_heads()
        live = self._live.get(body.name)
        if live is None:
            live = self._live[body.name] = liveness(body)
        pred = body.pred()
        edge_out = {}          # (pred, tgt) -> list of worlds from the latest run of pred
        head_state = {}        # head bb -> {key: world}   (monotone, widened)
        head_count = {}
        last_input = {}        # bb -> list of world ids processed last time
        peel_forks = {}
        peel_marks = {}        # (deciding block, successor inside the loop) -> head: crossing it means "the loop body runs"
        if self.cfg.get('peel', False):
            succ = body.succ()
            for h in heads:
                loop = body.natural_loop(h)
                dblk, seen_ = h, set()
                while dblk not in seen_:
                    seen_.add(dblk)
                    ins = [t_ for t_ in succ.get(dblk, ()) if t_ in loop]
                    outs = [t_ for t_ in succ.get(dblk, ()) if t_ not in loop]
                    if outs or len(ins) != 1:
                        break
                    dblk = ins[0]
                for t_ in succ.get(dblk, ()):
                    if t_ in loop:
                        peel_marks.setdefault((dblk, t_), []).append(h)
        pending = {0}
        rets = {}
        steps = 0
        hot = {}
        while pending:
            bb = min(pending, key=lambda b: order.get(b, 1 << 30))
            pending.discard(bb)
            steps += 1
            if time.time() > self.deadline:
                # fail closed: an analysis that does not finish within its budget is a tooling error of the check, never a pass
                raise BudgetExceeded(f"analysis budget of {self.budget_s} s exceeded in {body.key} ({self.stats['blocks']} blocks interpreted)")
            if steps > self.cfg.get('max_steps', 6000):
                raise AnalysisError(f"fixpoint did not converge in {body.key} (hot blocks {sorted(hot.items(), key=lambda x: -x[1])[:6]})")
            hot[bb] = hot.get(bb, 0) + 1
            # ---- assemble the input of this block from the latest outputs of its predecessors
            incoming = [(-1, w0)] if bb == 0 else []
            for p in pred.get(bb, ()):
                incoming.extend((p, x) for x in edge_out.get((p, bb), ()))
            if bb in heads and self.cfg.get('peel', False):
                # first-iteration peeling (see below): "the loop has not run yet" / "has run at least once" is a ghost, hence part of
                # the partition key, in the loop and after it
                gk = ('G', ('iters', frame.fid, bb))
                marked = []
                for p, w in incoming:
                    if order.get(p, -1) >= order.get(bb, 0):
                        marked.append((p, w))        # back edge: the body has run (marked when it was entered)
                        continue
                    gv = ('enum', ((0, ()),))
                    if w.mem.get(gk) != gv:
                        c = peel_forks.get(id(w))
                        if c is None or c[0] is not w:
                            w2 = w.fork()
                            w2.mem[gk] = gv
                            c = peel_forks[id(w)] = (w, w2)
                        w = c[1]
                    marked.append((p, w))
                incoming = marked
            for level in (0, 1, 2):
                groups = {}
                edge_groups = {}
                for p, w in incoming:
                    k = self.key_of(w, frame, level)
                    groups.setdefault(k, []).append(w)
                    edge_groups.setdefault(k, {}).setdefault(p, []).append(w)
                if len(groups) <= self.max_worlds:
                    break
                self.stats['coarsened'] = self.stats.get('coarsened', 0) + 1
            inputs = []
            if bb in heads:
                hs = head_state.setdefault(bb, {})
                peel = self.cfg.get('peel', False)
                for k in groups:
                    for p_, bw in sorted(edge_groups[k].items()):
                        is_back = order.get(p_, -1) >= order.get(bb, 0)
                        # first-iteration peeling: the worlds entering the loop and the worlds coming round the back edge have
                        # separate head states, so what is only true on entry (a variable still holds its initial value) is
                        # not lost in the first pass through the body
                        hk = (k, is_back) if peel else k
                        H = hs.get(hk)
                        for N in bw:
                            if H is None:
                                H = N
                                continue
                            if self.absorbs(H, N):
                                continue
                            n = head_count.get((bb, hk), 0)
                            if is_back:
                                head_count[(bb, hk)] = n + 1
                            self.head_points.add((frame.fid, bb, 0))
                            H, _ = self.join(H, N, (frame.fid, bb, 0), widen=(is_back and n >= 2), relational=True)
                        hs[hk] = H
                if len(hs) > self.max_worlds:
                    raise AnalysisError(f"too many partitions at loop head bb{bb} of {body.key}")
                inputs = list(hs.values())
            else:
                for k, ws in groups.items():
                    # keep up to kslots worlds per partition; when there are more, merge the
                    # worlds that arrived over the same edge first (they share a branch condition)
                    buckets = []
                    for p, bw in sorted(edge_groups[k].items()):
                        uniq = []
                        for N in bw:
                            if not any(self.absorbs(e, N) for e in uniq):
                                uniq.append(N)
                        buckets.append(uniq)
                    jn = 0
                    total = sum(len(b_) for b_ in buckets)
                    if self.cfg.get('merge') == 'global':
                        # merge, among all worlds of this key, the two whose merge loses least (whatever edge they came over)
                        flat = [w_ for b_ in buckets for w_ in b_]
                        while len(flat) > self.kslots:
                            bi, bj = len(flat) - 2, len(flat) - 1
                            if len(flat) <= 48:
                                best = None
                                for i_ in range(len(flat)):
                                    for j_ in range(i_ + 1, len(flat)):
                                        c_ = self.merge_cost(flat[i_], flat[j_])
                                        if best is None or c_ < best:
                                            best, bi, bj = c_, i_, j_
                            x = flat.pop(bj)
                            flat[bi], _ = self.join(flat[bi], x, (frame.fid, bb, jn), relational=self.cfg.get('relational_all', False))
                            jn += 1
                        buckets = [flat]
                        total = len(flat)
                    while total > self.kslots:
                        big = max(range(len(buckets)), key=lambda i: len(buckets[i]))
                        if len(buckets[big]) >= 2:
                            b_ = buckets[big]
                            # merge the two worlds whose merge loses least: worlds that differ only in what they know about
                            # data bytes (a byte-wise pattern leaves one world per byte) go first, worlds that differ in a
                            # relation between lengths (the reason a branch was taken) last
                            bi, bj = len(b_) - 2, len(b_) - 1
                            if len(b_) > 2 and len(b_) <= 40:
                                best = None
                                for i_ in range(len(b_)):
                                    for j_ in range(i_ + 1, len(b_)):
                                        c_ = self.merge_cost(b_[i_], b_[j_])
                                        if best is None or c_ < best:
                                            best, bi, bj = c_, i_, j_
                            if os.environ.get('VERIF_DEBUG_MERGE'):
                                print('MERGE', body.key.split('::')[-1], 'bb', bb, 'bucket sizes', [len(q) for q in buckets], 'pair', bi, bj, 'key', k)
                            x = b_.pop(bj)
                            b_[bi], _ = self.join(b_[bi], x, (frame.fid, bb, jn), relational=self.cfg.get('relational_all', False))
                        else:
                            if os.environ.get('VERIF_DEBUG_MERGE'):
                                print('MERGE-X', body.key.split('::')[-1], 'bb', bb, 'bucket sizes', [len(q) for q in buckets], 'key', k)
                            x = buckets.pop()
                            buckets[-1][-1], _ = self.join(buckets[-1][-1], x[0], (frame.fid, bb, jn), relational=self.cfg.get('relational_all', False))
                        jn += 1
                        total -= 1
                    for b_ in buckets:
                        inputs.extend(b_)
                if len(groups) > self.max_worlds:
                    raise AnalysisError(f"too many partitions at bb{bb} of {body.key}")
            self.stats['worlds_max'] = max(self.stats['worlds_max'], len(inputs))
            ids = [id(w) for w in inputs]
            if last_input.get(bb) == ids:
                continue
            last_input[bb] = ids
            # keep the input worlds alive so that ids stay unique
            last_input[('keep', bb)] = inputs
            # ---- execute
            self.clear_records(frame.ctx, bb)
            self.stats['blocks'] += 1
            rets.pop(bb, None)
            blk = body.blocks[bb]
            new_out = {}
            for w in inputs:
                wc = w.fork()
                if self.cfg.get('trail'):
                    wc.events = wc.events + ((body.key.split('::')[-1], bb),)
                try:
                    for idx, st in enumerate(blk['stmts']):
                        self.exec_stmt(wc, frame, bb, idx, st)
                    succs = self.exec_term(wc, frame, bb, blk['term'])
                except AnalysisError as e:
                    site = self.site_of(frame, bb, 'x', blk['term']['span'])
                    self.rec(frame, bb, 'ob', site, {'okind': 'analysis-error', 'ok': False, 'desc': str(e), 'needs': [], 'state': []})
                    self.note_unmodelled(f"analysis error: {e}")
                    continue
                for tgt, w2 in succs:
                    if w2.dead or FALSE_CON in w2.store.cons:
                        continue
                    if tgt == 'return':
                        rets.setdefault(bb, []).append(w2)
                        continue
                    for h_ in peel_marks.get((bb, tgt), ()):
                        w2.mem[('G', ('iters', frame.fid, h_))] = ('enum', ((1, ()),))
                    lv = live[tgt]
                    for root in [r for r in w2.mem if r[0] == 'L' and r[1] == frame.fid and r[2] not in lv]:
                        del w2.mem[root]
                    new_out.setdefault(tgt, []).append(w2)
            for tgt in set(new_out) | set(t for (p, t) in edge_out if p == bb):
                old = edge_out.get((bb, tgt), [])
                new = new_out.get(tgt, [])
                same = len(old) == len(new) and all(self.absorbs(o, n) and self.absorbs(n, o) for o, n in zip(old, new))
                edge_out[(bb, tgt)] = new
                if not same:
                    pending.add(tgt)
        out = []
        for bb in sorted(rets):
            out.extend(rets[bb])
        return out

    # ------------------------------------------------------------------ join / widening
    def absorbs(self, E, N):
        """cheap sufficient test for N being included in E"""
        if E is N:
            return True
        if not (E.store.cons <= N.store.cons):
            return False
        for root, ev in E.mem.items():
            nv = N.mem.get(root)
            if nv is None:
                if root[0] == 'L':
                    return False
                continue
            if ev is not nv and ev != nv:
                return False
        for k, v in E.facts.items():
            if N.facts.get(k) != v:
                return False
        return N.written <= E.written

    def join(self, E, N, point, widen=False, relational=False):
        """join world N into E at program point `point`. returns (world, changed)."""
        self.stats['joins'] += 1
        if widen:
            self.stats['widenings'] += 1
        SE = {}    # join atom -> value in E   (only first-time atoms)
        SN = {}    # join atom -> value in N
        ctx = {'point': point, 'SE': SE, 'SN': SN, 'E': E, 'N': N}
        mem = {}
        changed = False
        for root, ev in E.mem.items():
            if root in N.mem:
                nv = N.mem[root]
                if ev is nv or ev == nv:
                    mem[root] = ev
                else:
                    jv = self.join_value(ev, nv, (root,), ctx)
                    mem[root] = jv
                    if jv != ev:
                        changed = True
            elif root[0] != 'L':
                mem[root] = ev
            else:
                changed = True
        for root, nv in N.mem.items():
            if root not in E.mem and root[0] != 'L':
                mem[root] = nv
        # --- constraint stores
        def sub(c, S):
            # simultaneous substitution: on a back edge the N-side value of a join atom is expressed over that same atom
            # (offset~ -> offset~ + n), so substituting one atom after the other would rewrite the replacement as well
            if not any(a in S for a, _ in c.terms):
                return c
            out = Lin.c(c.const)
            for a, k in c.terms:
                out = out + (S[a].scale(k) if a in S else Lin.atom(a, k))
            return out
        cands = set(E.store.cons)
        raw = set(E.store.cons)
        fresh = set(SE)            # locations joined for the first time at this point
        only_fresh = widen and bool(fresh)
        base_cands = set(cands)
        if not widen or fresh:
            for c in N.store.cons:
                if not any(c.coef(a) for a in SN if a not in SE):
                    cands.add(c)
                    raw.add(c)
            cands |= self.derived_candidates(E.store, SE)
            cands |= self.derived_candidates(N.store, SN)
            # affine relations among the joined locations that hold on both sides (Karr)
            cands |= self.affine_relations(SE, SN, E.store, N.store)
            if relational:
                cands |= self.template_candidates(E, N, SE, SN, point)
            elif self.cfg.get('diff_templates'):
                cands |= self.template_candidates(E, N, SE, SN, point, both_symbolic=True)
            if only_fresh:
                # widening: constraints that do not involve a first-time location come from E only
                cands = base_cands | set(c for c in cands if any(c.coef(a) for a in fresh))
            for a in SN:
                ee = SE.get(a, Lin.atom(a))
                ne = SN[a]
                # each side's own expression as a bound of the joined value
                for ex in (ee, ne):
                    if not ex.is_const() and not ex.coef(a):
                        cands.add(Lin.atom(a) - ex)
                        cands.add(ex - Lin.atom(a))
                lo1, hi1 = E.store.quick_bounds(ee)
                lo2, hi2 = N.store.quick_bounds(ne)
                if lo1 is not None and lo2 is not None:
                    cands.add(le(Lin.c(min(lo1, lo2)), Lin.atom(a)))
                if hi1 is not None and hi2 is not None:
                    cands.add(le(Lin.atom(a), Lin.c(max(hi1, hi2))))
        # template "not all bytes of this array are zero": byte-wise tests leave b0 >= 1 in one world and b0 = 0, b1 >= 1 in
        # the next; what they have in common is sum(b_i) >= 1
        groups = {}
        for st_ in (E.store, N.store):
            for c in st_.cons:
                for a_, _ in c.terms:
                    d_ = ATOMS.info(a_).defn
                    if d_ and d_[0] == 'arr_elem':
                        groups.setdefault(d_[1], set()).add(a_)
        for content, ats in groups.items():
            full = set(ats)
            for i in range(16):
                x = ATOMS.by_key.get(('arr_elem', content, Lin.c(i)))
                if x is not None:
                    full.add(x)
            s_ = Lin.c(0)
            for x in sorted(full):
                s_ = s_ + Lin.atom(x)
            cands.add(le(Lin.c(1), s_))
        kept = set()
        from lin import normalize
        jatoms = set(SE) | set(SN)
        common = E.store.cons & N.store.cons
        atomsE = set(a for c in E.store.cons for a, _ in c.terms)
        atomsN = set(a for c in N.store.cons for a, _ in c.terms)
        for c in cands:
            if c in common and not (jatoms and any(c.coef(a) for a in jatoms)):
                kept.add(c)
                continue
            n = normalize(c)
            if n is True or n is False:
                continue
            ce = sub(n, SE)
            cn = sub(n, SN)
            if c in raw and (self.hopeless(cn, atomsN) or self.hopeless(ce, atomsE)):
                continue
            if (ce in E.store.cons or E.store.entails(ce)) and (cn in N.store.cons or N.store.entails(cn)):
                kept.add(n)
        store = Store(frozenset(kept))
        if store.cons != E.store.cons:
            changed = True
        facts = {}
        for A_, B_ in ((E, N), (N, E)):
            for k, v in A_.facts.items():
                if k in facts:
                    continue
                bv = B_.facts.get(k)
                if bv == v:
                    facts[k] = v
                elif bv is None and isinstance(k, tuple) and k and k[0] == 'form' and form_is_linear(k[1]):
                    # the other side does not carry the fact but its constraints decide the formula the same way
                    try:
                        if self.decide(B_, k[1]) == v:
                            facts[k] = v
                    except Exception:
                        pass
        # a value below a on one side and above b on the other lies outside (a, b) after the join: the one-variable
        # disjunction `x < 0x100 || x >= 0x600` survives as the negated range formula
        try:
            ue, un = E.store._unary(), N.store._unary()
            for x, (lo1, hi1) in ue.items():
                if x in SE or x in SN or x not in un:
                    continue
                lo2, hi2 = un[x]
                gap = None
                if hi1 is not None and lo2 is not None and lo2 - hi1 >= 2:
                    gap = (hi1 + 1, lo2)
                elif hi2 is not None and lo1 is not None and lo1 - hi2 >= 2:
                    gap = (hi2 + 1, lo1)
                if gap:
                    X = Lin.atom(x)
                    facts[('form', ('and', ('cmp', 'le', Lin.c(gap[0]), X), ('cmp', 'lt', X, Lin.c(gap[1]))))] = False
        except Exception:
            pass
        if facts != E.facts:
            changed = True
        J = World()
        J.mem = mem
        J.store = store
        J.facts = facts
        J.alias = {k: v for k, v in E.alias.items() if N.alias.get(k) == v} if (E.alias and N.alias) else {}
        J.events = E.events
        J.written = E.written | N.written
        if J.written != E.written:
            changed = True
        J.names = E.names
        if N.names is not E.names:
            for k, v in N.names.items():
                J.names.setdefault(k, v)
        return J, changed

    def affine_relations(self, SE, SN, Es=None, Ns=None):
        """equalities sum c_i*j_i = d valid on both sides: null space of the matrix whose
        rows are (E-value coefficients | N-value coefficients | constE - constN)"""
        from fractions import Fraction
        SE = dict(SE)
        SN = dict(SN)
        if Es is not None:
            # atoms pinned to (different) constants on the two sides take part as pseudo locations
            ue, un = Es._unary(), Ns._unary()
            for x, (lo1, hi1) in ue.items():
                if lo1 is None or lo1 != hi1 or x in SN:
                    continue
                b = un.get(x)
                if b and b[0] is not None and b[0] == b[1] and b[0] != lo1:
                    SE[x] = Lin.c(lo1)
                    SN[x] = Lin.c(b[0])
        js = sorted(SN)
        if len(js) < 2 or len(js) > 60:
            return set()
        # rows v_i = e_i - n_i ; a combination with sum c_i v_i = 0 gives
        #   sum c_i j_i = sum c_i e_i (= sum c_i n_i)   on both sides
        rows = []
        for a in js:
            e = SE.get(a, Lin.atom(a))
            d = (Es.canon(e) if Es is not None else e) - (Ns.canon(SN[a]) if Ns is not None else SN[a])
            vec = {x: Fraction(k) for x, k in d.terms}
            if d.const:
                vec[('C',)] = Fraction(d.const)
            rows.append(vec)
        m = len(js)
        comb = [{i: Fraction(1)} for i in range(m)]
        pivots = []
        for r in range(m):
            vec, cb = rows[r], comb[r]
            for (pc, pr) in pivots:
                if vec.get(pc):
                    f = vec[pc] / rows[pr][pc]
                    for k2, v2 in rows[pr].items():
                        nv = vec.get(k2, 0) - f * v2
                        if nv:
                            vec[k2] = nv
                        else:
                            vec.pop(k2, None)
                    for k2, v2 in comb[pr].items():
                        nv = cb.get(k2, 0) - f * v2
                        if nv:
                            cb[k2] = nv
                        else:
                            cb.pop(k2, None)
            if vec:
                pc = next(iter(vec))
                pivots.append((pc, r))
        out = set()
        from math import gcd as _gcd
        for r in range(m):
            if rows[r]:
                continue
            cb = comb[r]
            if len(cb) < 2:
                continue
            den = 1
            for v in cb.values():
                den = den * v.denominator // _gcd(den, v.denominator)
            lhs = Lin.c(0)
            rhs = Lin.c(0)
            for i, v in cb.items():
                k = int(v * den)
                lhs = lhs + Lin.atom(js[i], k)
                ei = SE.get(js[i], Lin.atom(js[i]))
                rhs = rhs + (Es.canon(ei) if Es is not None else ei).scale(k)
            rel = lhs - rhs
            if not rel.terms:
                continue
            out.add(rel)
            out.add(-rel)
        return out

    def hopeless(self, c, known):
        """c (<=0) mentions an atom the store knows nothing about and whose type range gives
        no bound in the direction c needs: cannot be entailed"""
        for a, k in c.terms:
            if a in known:
                continue
            inf = ATOMS.info(a)
            if k > 0 and inf.hi is None:
                return True
            if k < 0 and inf.lo is None:
                return True
        return False

    def template_candidates(self, E, N, SE, SN, point, both_symbolic=False):
        """loop-head templates  j - x <= c / j - x >= c  for the joined integers j against
        the integers x that have the same value on both sides (candidate loop invariants)"""
        out = set()
        fid = point[0]
        stable = set()
        for root, ev in E.mem.items():
            if root[0] != 'L' or root[1] != fid:
                continue
            nv = N.mem.get(root)
            if nv is None or nv != ev:
                continue
            for lin_ in self.lins_of(ev):
                for a in lin_.atoms():
                    stable.add(a)
        from lin import _relevant
        for j, ne in SN.items():
            ee = SE.get(j, Lin.atom(j))
            if not (ee.is_const() or ne.is_const()) and not both_symbolic:
                continue      # both sides symbolic: the substitution-derived candidates cover most relations
            relN, atN = _relevant(N.store.cons, ne.atoms())
            relE, atE = _relevant(E.store.cons, ee.atoms())
            for x in stable:
                if x in SN or (x not in atN and x not in atE):
                    continue
                X = Lin.atom(x)
                lo1, hi1 = E.store.bounds(ee - X)
                lo2, hi2 = N.store.bounds(ne - X)
                if hi1 is not None and hi2 is not None:
                    out.add(Lin.atom(j) - X - max(hi1, hi2))
                if lo1 is not None and lo2 is not None:
                    out.add(X + min(lo1, lo2) - Lin.atom(j))
        return out

    def lins_of(self, v):
        t = v[0]
        if t == 'int':
            return [v[1]]
        if t == 'slice':
            return [v[2], v[3]]
        if t == 'agg':
            out = []
            for x in v[1]:
                out += self.lins_of(x)
            return out
        return []

    def derived_candidates(self, store, S):
        out = set()
        for j, e in S.items():
            if e.is_const():
                continue
            for t, k in e.terms:
                if abs(k) != 1:
                    continue
                # e = k*t + rest  ->  t = k*(j - rest)
                d = dict(e.terms)
                del d[t]
                rest = Lin.from_dict(d, e.const)
                expr = (Lin.atom(j) - rest).scale(k)
                for c in store.cons:
                    if c.coef(t):
                        out.add(c.subst(t, expr))
        return out

    def join_int(self, a, b, path, ctx):
        """a: Lin in E, b: Lin in N"""
        key = ('join', ctx['point'], path)
        fam = self._join_family.setdefault(key, [])
        if len(a.terms) == 1 and a.const == 0 and a.terms[0][1] == 1 and a.terms[0][0] in fam:
            # re-join: the location already holds one of this point's join atoms
            existing = a.terms[0][0]
            prev = ctx['SN'].get(existing)
            if prev is not None and prev != b:
                return None
            ctx['SN'][existing] = b
            return a
        if ctx['point'] not in self.head_points:
            # two locations that hold the same value in E and the same value in N hold the same value after the join:
            # share the join atom, so that equalities such as `header written == header computed` survive a merge
            for j0, ea in ctx['SE'].items():
                if ea == a and ctx['SN'].get(j0) == b:
                    if j0 not in fam:
                        fam.append(j0)
                    return Lin.atom(j0)
        nm = self.path_name(path)
        j = ATOMS.fresh(nm, None, None, kind='join')
        fam.append(j)
        if ctx['point'] in self.head_points or any(x in self.loop_atoms for x in a.atoms()) or any(x in self.loop_atoms for x in b.atoms()):
            self.loop_atoms.add(j)
        ctx['SE'][j] = a
        ctx['SN'][j] = b
        return Lin.atom(j)

    def path_name(self, path):
        root = path[0]
        nm = '?'
        if root[0] == 'L':
            fr = self.frames.get(root[1])
            nm = (fr.body.local_names.get(root[2]) if fr else None) or f"_{root[2]}"
        elif root[0] == 'O':
            nm = f"obj{root[1]}"
        rest = ''.join(f".{x}" for x in path[1:] if not isinstance(x, Lin))
        return f"{nm}{rest}~"

    def join_value(self, a, b, path, ctx):
        if a == b:
            return a
        ta, tb = a[0], b[0]
        if ta == 'int' and tb == 'int':
            r = self.join_int(a[1], b[1], path, ctx)
            if r is None:
                return ('top', None, 'join', '?')
            # give the join atom the name of the location for readable reports
            return ('int', r)
        if ta == 'bool' and tb == 'bool':
            return ('bool', ('opq', ('join', ctx['point'], path)))
        if ta == 'agg' and tb == 'agg' and len(a[1]) == len(b[1]):
            return ('agg', tuple(self.join_value(x, y, path + (i,), ctx) for i, (x, y) in enumerate(zip(a[1], b[1]))))
        if ta == 'enum' and tb == 'enum':
            da = dict(a[1])
            db = dict(b[1])
            alts = []
            for v in sorted(set(da) | set(db)):
                if v in da and v in db:
                    fa, fb = da[v], db[v]
                    if len(fa) == len(fb):
                        alts.append((v, tuple(self.join_value(x, y, path + ('v', v, i), ctx) for i, (x, y) in enumerate(zip(fa, fb)))))
                    else:
                        alts.append((v, fa))
                elif v in da:
                    alts.append((v, da[v]))
                else:
                    alts.append((v, db[v]))
            return ('enum', tuple(alts))
        if ta == 'seq' and tb == 'seq':
            ln = a[1] if a[1] == b[1] else self.join_int(a[1], b[1], path + ('len',), ctx)
            if ln is None:
                ln = Lin.atom(ATOMS.fresh('len', 0, ISIZE_MAX))
            cb = dict(b[3])
            cells = []
            for idx, cv in a[3]:
                if idx in cb:
                    cells.append((idx, self.join_value(cv, cb[idx], path + ('cell', idx), ctx)))
            cap = a[5] if a[5] == b[5] else None
            return ('seq', ln, a[2], tuple(cells), a[4], cap)
        if ta == 'slice' and tb == 'slice' and a[1] == b[1]:
            s = a[2] if a[2] == b[2] else self.join_int(a[2], b[2], path + ('start',), ctx)
            l = a[3] if a[3] == b[3] else self.join_int(a[3], b[3], path + ('slen',), ctx)
            if s is not None and l is not None:
                return ('slice', a[1], s, l)
        if ta == 'iter' and tb == 'iter' and a[1] == b[1]:
            p = a[2] if a[2] == b[2] else self.join_int(a[2], b[2], path + ('pos',), ctx)
            e = a[3] if a[3] == b[3] else self.join_int(a[3], b[3], path + ('end',), ctx)
            if p is not None and e is not None and a[4:] == b[4:]:
                return ('iter', a[1], p, e) + tuple(a[4:])
        if ta == 'top' and tb == 'top' and a[1] == b[1]:
            return a
        if ta == 'moved' or tb == 'moved':
            other = b if ta == 'moved' else a
            return ('top', other[1] if other[0] == 'top' else None, 'maybe-moved', '?')
        if ta == 'top':
            return a
        if tb == 'top':
            return b
        return ('top', None, 'join', '?')

    # ------------------------------------------------------------------ roots
    def run_root(self, body, assume=None, arg_values=None):
        """analyse `body` as an entry point with unconstrained parameters.
        returns (list of (world, retval), frame-less info)"""
        w = World()
        self.root_key = body.key      # policies named after an entry point also cover the helpers inlined under it
        args = []
        for i in range(1, body.arg_count + 1):
            ty = body.local_ty(i)
            nm = body.local_names.get(i, f"arg{i}")
            if arg_values and i in arg_values:
                args.append(arg_values[i](self, w))
                continue
            v = self.deep_expand(w, ('top', reg_ty(ty), ('param', nm), nm))
            args.append(v)
        if assume:
            assume(self, w, args)
        return self.run_function(body, w, args, ())
