import sys
from framework import *
facts = extract_facts()
key = sys.argv[1]
a = Analysis(facts, key, {'kslots': int(sys.argv[2]) if len(sys.argv) > 2 else 8})
print('returns', len(a.rets), 'wall', a.wall)
from lin import _relevant
for w, rv in a.rets:
    print('--- ret', rv)
    print('    facts', {str(k)[:150]: v for k, v in w.facts.items()})
    if a.body.local_names.get(1) == 'self':
        print('    self', a.I.read(w, a.args[0][1]))
    ats = set()
    for v in [rv]:
        for l in a.I.lins_of(v): ats.update(l.atoms())
    print('    store', w.store)
    print('    part', a.I.partition(w))
