from framework import *
ck = Check('X'); ck.load()
import sys
w = sys.argv[1]
a = analyse_writer(ck, ENC + w, extra={'decline_loop_obligations_in': {ENC + 'encap_ext'}})
env, rows = writer_rows(ck, a, w)
seen=set()
for r in rows:
    k=(r['part'], r['start'].pretty(), r['len'].pretty(), str(r['src']))
    if k in seen: continue
    seen.add(k)
    print(r['part'], f"[{r['start'].pretty()} ; +{r['len'].pretty()})", r['src'], site_str(r['site']))
