"""Common plumbing of the rule packs: facts extraction, root analyses, findings, known
findings, evidence files (see DESIGN.md section 3)."""
import hashlib
import json
import os
import subprocess
import sys
import time

HERE = os.path.dirname(os.path.abspath(__file__))
VERIF = os.path.dirname(HERE)
OUTROOT = os.environ.get('VERIF_OUT') or VERIF      # self-tests redirect findings / evidence of scratch runs
sys.path.insert(0, HERE)

from mirlib import Facts, strip_generics          # noqa: E402
from absint import Interp, AnalysisError          # noqa: E402
from lin import Lin, ATOMS, le, lt, STATS          # noqa: E402
import absint as absint_mod                          # noqa: E402
from values import Loc                             # noqa: E402

REPO = os.environ.get('VERIF_REPO', '/repo')

ENC = 'gse_encap::Encapsulator::'
DEC = 'gse_decap::Decapsulator::'
MEM = '<gse_decap::gse_decap_memory::SimpleGseMemory as gse_decap::gse_decap_memory::GseDecapMemory>::'
TRAIT_MEM = 'gse_decap::gse_decap_memory::GseDecapMemory::'


class Tooling(Exception):
    pass


def extract_facts(profile='dev'):
    out = os.path.join(VERIF, 'out', f'facts-{profile}-{os.getpid()}.json')
    os.makedirs(os.path.dirname(out), exist_ok=True)
    r = subprocess.run([os.path.join(VERIF, 'bin', 'extract-facts'), out, profile, REPO],
                       capture_output=True, text=True)
    if r.returncode != 0 or not os.path.exists(out):
        raise Tooling(f"fact extraction failed: {r.stderr[-2000:]}")
    with open(out, 'rb') as f:
        h = hashlib.sha256(f.read()).hexdigest()
    facts = Facts(out)
    os.unlink(out)
    if facts.j.get('crate') != 'dvb_gse_rust' or facts.j.get('n_bodies', 0) < 100:
        raise Tooling("facts do not describe dvb_gse_rust")
    facts.sha = h
    c = facts.census
    if c['unsafe_blocks'] or c['unsafe_fns'] or c['unsafe_impls']:
        raise Tooling(f"crate contains unsafe code, provenance reasoning void: {c}")
    return facts


class Analysis:
    """result of analysing one root function"""

    def __init__(self, facts, key, cfg=None, assume=None):
        self.key = key
        self.body = facts.body(key)
        self.I = Interp(facts, cfg or {})
        t = time.time()
        self.args = None

        def cap(I, w, args):
            if assume:
                assume(I, w, args)       # may refine the world and replace entries of `args`
            self.args = list(args)
            self.w0 = w.fork()
        self.rets = self.I.run_root(self.body, assume=cap)
        self.wall = time.time() - t
        self.records = self.I.all_records()

    def obligations(self):
        return [r for r in self.records if r.kind == 'ob']

    def events(self, kind=None):
        return [r for r in self.records if r.kind == 'event' and (kind is None or r.data[0] == kind)]

    def arg(self, role):
        return self.args[param_index(self.body, role) - 1]

    def param_name(self, role):
        i = param_index(self.body, role)
        return self.body.local_names.get(i, f"arg{i}")


# Positions of the parameters of the public entry points / trait methods the rule packs analyse.  Positions are part of the
# API (every caller passes positionally, so a reordering does not compile against the existing tests); parameter *names* are
# not, and a renamed parameter must not disturb a rule.
_W = {'self': 1, 'pdu': 2, 'frag_id': 3, 'metadata': 4, 'buffer': 5, 'extensions': 6}
PARAMS = {
    ENC + 'encap': _W, ENC + 'encap_ext': _W,
    ENC + 'encap_frag': {'self': 1, 'pdu': 2, 'context': 3, 'buffer': 4},
    'gse_encap::encap_preview': {'pdu': 1, 'metadata': 2, 'buffer': 3},
    'gse_encap::encap_frag_preview': {'pdu': 1, 'context': 2, 'buffer': 3},
    ENC + 'check_label_re_use': {'self': 1, 'label': 2},
    DEC + 'decap': {'self': 1, 'buffer': 2}, DEC + 'get_label_or_frag_id': {'self': 1, 'buffer': 2},
    MEM + 'take_frag': {'self': 1, 'frag_id': 2}, MEM + 'save_frag': {'self': 1, 'context': 2}, MEM + 'new_frag': {'self': 1, 'context': 2},
    MEM + 'provision_storage': {'self': 1, 'storage': 2}, MEM + 'new_pdu': {'self': 1},
    '<crc::DefaultCrc as crc::CrcCalculator>::calculate_crc32': {'self': 1, 'pdu': 2, 'protocol_type': 3, 'total_length': 4, 'label': 5},
    'header_extension::Extension::new': {'id': 1, 'data': 2},
    'label::Label::new': {'label_type': 1, 'label': 2},
}


def param_index(body, role):
    """1-based index of the parameter playing `role` in `body`: by the API position table, else by name, else by type"""
    t = PARAMS.get(body.key)
    if t and role in t and t[role] <= body.arg_count:
        return t[role]
    if body.key.endswith('>::generate') and role in ('self', 'buffer'):
        return {'self': 1, 'buffer': 2}[role]
    if body.key.endswith('>::parse') and role == 'buffer':
        return 1
    for i in range(1, body.arg_count + 1):
        if body.local_names.get(i) == role:
            return i
    if role == 'self' and body.arg_count >= 1 and body.local_ty(1)['k'] == 'ref' and body.local_ty(1)['to']['k'] == 'adt':
        return 1
    cands = [i for i in range(1, body.arg_count + 1) if _role_type(role, body.local_ty(i))]
    if len(cands) == 1:
        return cands[0]
    raise Tooling(f"anchor lost: parameter `{role}` of {body.key}")


def _role_type(role, ty):
    def u8slice(t, mut=None):
        return t['k'] == 'ref' and t['to']['k'] == 'slice' and t['to']['of'].get('s') == 'u8' and (mut is None or bool(t.get('mut')) == mut)
    if role == 'buffer':
        return u8slice(ty, True)
    if role in ('pdu', 'data'):
        return u8slice(ty, False)
    if role == 'metadata':
        return ty['k'] == 'adt' and ty['name'].endswith('EncapMetadata')
    if role == 'context':
        return (ty['k'] == 'ref' and ty['to']['k'] == 'adt' and ty['to']['name'].endswith('ContextFrag')) or 'DecapContext' in ty.get('s', '')
    if role == 'frag_id':
        return ty.get('s') == 'u8'
    if role == 'crc':
        return ty.get('s') == 'u32'
    if role == 'label':
        return ty.get('s') == 'label::Label'
    if role == 'extensions':
        return 'Extension' in ty.get('s', '')
    return False


def zero_array_established(w, n=6):
    """does world w say that all n bytes of some byte array are zero?  (either the legacy opaque equality fact with a constant,
    or the constraints: every element atom of one array content is 0 / their sum is 0).  Used to recognise the reject path
    `label == [0; 6]`, which the premise "the sender never emits the zero label" excludes."""
    if any(isinstance(k, tuple) and k and k[0] == 'eq' and vv is True for k, vv in w.facts.items()):
        return True
    groups = {}
    cells = {}
    for c in w.store.cons:
        for a_, _ in c.terms:
            d_ = ATOMS.info(a_).defn
            if d_ and d_[0] == 'arr_elem':
                groups.setdefault(d_[1], set()).add(a_)
            elif d_ and d_[0] == 'elem' and d_[2].is_const():
                cells.setdefault(d_[1], {})[d_[2].const] = a_
    # the label bytes read as cells of the packet itself (an array that is "the bytes of packet[k..k+n)")
    for tag, by_idx in cells.items():
        for k in by_idx:
            if all((k + i) in by_idx for i in range(n)):
                total = Lin.c(0)
                for i in range(n):
                    total = total + Lin.atom(by_idx[k + i])
                if w.store.entails(le(total, Lin.c(0))):
                    return True
    for content in groups:
        total = Lin.c(0)
        ok = True
        for i in range(n):
            x = ATOMS.by_key.get(('arr_elem', content, Lin.c(i)))
            if x is None:
                ok = False
                break
            total = total + Lin.atom(x)
        if ok and w.store.entails(le(total, Lin.c(0))):
            return True
    return False


def short(fnkey):
    return fnkey.split('::')[-1]


def site_str(site):
    return f"{site[4]}:{site[3]}"


class Check:
    def __init__(self, pid, tier='quick'):
        self.pid = pid
        self.tier = tier
        self.t0 = time.time()
        self.findings = []
        self.rules = {}          # rule -> dict(instances, floor, ok, note)
        self.samples = []
        self.assumptions = []
        self.obligations = 0
        self.discharged = 0
        self.declined = []
        self.declined_instances = 0
        self.analyses = {}
        self.facts = None
        self.unmodelled = {}
        self.functions = set()
        self.extra = {}
        self._ob_sites = set()
        self.profile = 'dev'
        self.defer = False       # thorough tier: the caller merges the passes and emits once
        self.result = None

    # ---------------------------------------------------------------- analysis
    def load(self, profile=None):
        self.profile = profile or os.environ.get('VERIF_PROFILE', 'dev')
        self.facts = extract_facts(self.profile)
        return self.facts

    def analyse(self, key, cfg=None, assume=None, tag=''):
        ck = (key, tag)
        if ck not in self.analyses:
            try:
                a = Analysis(self.facts, key, cfg, assume)
            except KeyError as e:
                raise Tooling(f"anchor lost: function {key} not found ({e})")
            except absint_mod.BudgetExceeded as e:
                raise Tooling(str(e))
            self.analyses[ck] = a
            for k, v in a.I.unmodelled.items():
                self.unmodelled[k] = self.unmodelled.get(k, 0) + v
            self.functions |= a.I.stats['functions']
        return self.analyses[ck]

    # ---------------------------------------------------------------- findings
    def finding(self, rule, fn, key, what, site=None, detail=None):
        f = {'property': self.pid, 'rule': rule, 'fn': fn, 'key': key, 'what': what,
             'site': site_str(site) if site else None, 'detail': detail}
        for g in self.findings:
            if (g['rule'], g['fn'], g['key']) == (rule, fn, key):
                return
        self.findings.append(f)

    def rule(self, name, instances, floor=1, note=''):
        """register how many instances a rule examined; below the floor the rule is vacuous"""
        r = self.rules.setdefault(name, {'instances': 0, 'floor': floor, 'note': note})
        r['instances'] += instances
        r['floor'] = floor
        if note:
            r['note'] = note

    def panic_rule(self, name, n_sites, analyses, floor_blocks):
        """vacuity guard of a panic-freedom rule: what must not silently shrink is the code that was interpreted (basic blocks
        of the entry points and everything inlined into them), not the number of panic sites - a tree that indexes less has
        fewer sites and is no worse for it"""
        blocks = sum(a.I.stats['blocks'] for a in analyses)
        if os.environ.get('VERIF_DEBUG_BLOCKS'):
            print('BLOCKS', name, blocks, 'sites', n_sites)
        self.rule(name, blocks, floor_blocks, note=f"instances = basic blocks interpreted (every panic site in them is an obligation: {n_sites} distinct sites)")

    def sample(self, s):
        if len(self.samples) < 12:
            self.samples.append(s)

    def count_obligations(self, obs, rule, fn_filter=None):
        """PANIC family: every failed, non-declined obligation is a finding"""
        n = 0
        seen = set()
        for r in obs:
            d = r.data
            if fn_filter and not fn_filter(r.site[0]):
                continue
            sk = (r.site[0], r.site[1], r.site[2], d['okind'])
            if sk not in self._ob_sites:
                self._ob_sites.add(sk)
                n += 1
            self.obligations += 1
            if d['ok']:
                self.discharged += 1
                if len(self.samples) < 6 and d['okind'] not in [s.get('okind') for s in self.samples if isinstance(s, dict)]:
                    self.sample({'obligation': d['desc'], 'okind': d['okind'], 'site': site_str(r.site), 'fn': short(r.site[0]), 'status': 'discharged'})
                continue
            if d.get('declined'):
                self.declined_instances += 1
                k = (r.site[0], d['okind'], d['desc'])
                if k not in seen:
                    seen.add(k)
                    self.declined.append({'fn': short(r.site[0]), 'site': site_str(r.site), 'obligation': d['desc'], 'reason': d['declined']})
                continue
            key = f"{d['okind']}|{d['desc']}"
            self.finding(rule, r.site[0], key,
                         f"{short(r.site[0])}: possible panic, cannot show `{d['desc']}` ({d['okind']})",
                         r.site, {'needs': d.get('needs'), 'state': d.get('state'), 'partition': [list(x) for x in (d.get('part') or ())],
                                  'context': [f"{short(c[0])}@bb{c[1]}" for c in r.ctx]})
        return n

    # ---------------------------------------------------------------- output
    def finish(self, level='other', explanation='', trusted=None, checker_cmd=None):
        known = []
        kf_path = os.path.join(VERIF, 'known_findings.json')
        if os.path.exists(kf_path):
            with open(kf_path) as f:
                known = [k for k in json.load(f) if k.get('status') == 'open' and k.get('property') == self.pid]
        for name, r in self.rules.items():
            if r['instances'] < r['floor']:
                self.finding(name, '-', 'anchor-lost',
                             f"rule {name} matched {r['instances']} instance(s), expected at least {r['floor']} (kind=anchor-lost)")
        outdir = os.path.join(OUTROOT, 'out', self.pid)
        os.makedirs(outdir, exist_ok=True)
        fprefix = 'finding-' if self.profile == 'dev' else f'finding-{self.profile}-'
        for fn in os.listdir(outdir):
            if fn.startswith(fprefix):
                os.unlink(os.path.join(outdir, fn))
        nviol = 0
        lines = []
        for i, f in enumerate(self.findings):
            kf = [k for k in known if (k['rule'], k['fn'], k['key']) == (f['rule'], f['fn'], f['key'])]
            if kf:
                lines.append(f"KNOWN-FINDING: property={self.pid} {kf[0].get('what') or f['what']}")
                continue
            nviol += 1
            path = os.path.join(outdir, f"{fprefix}{nviol}.json")
            with open(path, 'w') as fh:
                json.dump(f, fh, indent=1, default=str)
            lines.append(f"VIOLATION property={self.pid} replay={path}")
            lines.append(f"  rule={f['rule']} fn={f['fn']} at {f['site']} : {f['what']}")
        wall = time.time() - self.t0
        cov = {
            'explanation': explanation,
            'obligations': self.obligations,
            'discharged': self.discharged,
            'rule_instances': self.rules,
            'functions_analysed': sorted(short(f) for f in self.functions),
            'n_functions_analysed': len(self.functions),
            'blocks': sum(a.I.stats['blocks'] for a in self.analyses.values()),
            'joins': sum(a.I.stats['joins'] for a in self.analyses.values()),
            'partitions_max': max([a.I.stats['worlds_max'] for a in self.analyses.values()] or [0]),
            'unmodelled_ops': self.unmodelled,
            'declined_sites': self.declined[:40],
            'n_declined': len(self.declined),
            'declined_instances': self.declined_instances,   # obligations - discharged = declined instances (+ findings)
            'samples': self.samples or [{'note': 'no sample'}],
            'trusted_base': trusted or [],
            'checker_cmd': checker_cmd or f"./check {self.pid} --tier {self.tier}",
            'facts_sha256': getattr(self.facts, 'sha', None),
            'fm': dict(STATS),
        }
        cov.update(self.extra)
        ev = {
            'property_id': self.pid,
            'tier': self.tier,
            'seed': int(os.environ.get('VERIF_SEED', '0') or 0),
            'level': level,
            'coverage': cov,
            'assumptions': self.assumptions,
            'wall_s': round(wall, 2),
            'violations': nviol,
        }
        cov['profile'] = self.profile
        lines.append(f"[{self.pid}] tier={self.tier} profile={self.profile} rules={len(self.rules)} obligations={self.obligations} discharged={self.discharged} "
                     f"declined={len(self.declined)} findings={len(self.findings)} violations={nviol} wall={wall:.1f}s")
        self.result = (ev, lines, nviol)
        if not self.defer:
            emit(ev, lines)
        return 1 if nviol else 0


def emit(ev, lines):
    os.makedirs(os.path.join(OUTROOT, 'evidence'), exist_ok=True)
    with open(os.path.join(OUTROOT, 'evidence', f"{ev['property_id']}.json"), 'w') as fh:
        json.dump(ev, fh, indent=1, default=str)
    for l in lines:
        print(l)


# ---------------------------------------------------------------------- shared configurations
def field_index(facts, adt, name, variant=0):
    a = facts.adts.get(adt)
    if not a:
        raise Tooling(f"anchor lost: type {adt}")
    for i, f in enumerate(a['variants'][variant]['fields']):
        if f['name'] == name:
            return i
    raise Tooling(f"anchor lost: field {adt}.{name}")


def variant_index(facts, adt, name):
    a = facts.adts.get(adt)
    if not a:
        raise Tooling(f"anchor lost: type {adt}")
    for v in a['variants']:
        if v['name'] == name:
            return v['idx']
    raise Tooling(f"anchor lost: variant {adt}::{name}")


CTX = 'gse_decap::DecapContext'
SGM = 'gse_decap::gse_decap_memory::SimpleGseMemory'


def decap_cfg(facts, extra=None):
    """configuration for analysing the generic Decapsulator: the GseDecapMemory implementation is
    assumed to obey its documented contract (DESIGN section 4, assumption 3):
      * take_frag / new_frag hand out a context whose pdu_len does not exceed the storage length
        (checked in return at every save_frag call: inductive invariant of the pair),
      * new_frag returns the context it was given."""
    i_pdu_len = field_index(facts, CTX, 'pdu_len')

    def ctx_box(res):
        if res[0] != 'enum':
            return None
        for v, fs in res[1]:
            if v == 0 and fs and fs[0][0] == 'agg' and len(fs[0][1]) == 2:
                return fs[0][1]
        return None

    def after_take(I, w, frame, site, args, res):
        cb = ctx_box(res)
        if cb and cb[0][0] == 'agg' and cb[1][0] == 'box':
            pl = cb[0][1][i_pdu_len]
            w.store = w.store.add(le(pl[1], I.seq_len(w, cb[1][1])))
        return res

    def after_new_frag(I, w, frame, site, args, res):
        cb = ctx_box(res)
        if cb and cb[1][0] == 'box' and args[1][0] == 'agg':
            ctx = args[1]
            out = []
            for v, fs in res[1]:
                if v == 0:
                    out.append((v, (('agg', (ctx, cb[1])),)))
                else:
                    out.append((v, fs))
            return ('enum', tuple(out))
        return res

    def before_save(I, w, frame, site, key, args):
        mc = args[1]
        if mc[0] == 'agg' and len(mc[1]) == 2 and mc[1][0][0] == 'agg' and mc[1][1][0] == 'box':
            pl = mc[1][0][1][i_pdu_len]
            ln = I.seq_len(w, mc[1][1][1])
            I.obligation(w, frame, site, 'memory-invariant', [le(pl[1], ln)],
                         f"saved context: pdu_len {pl[1].pretty()} <= storage length {ln.pretty()}")
        else:
            I.fail(w, frame, site, 'memory-invariant', 'saved context / storage not recognisable')

    cfg = {
        'kslots': int(os.environ.get('VERIF_DK', '4')),
        'peel': True,          # first iteration of loops analysed on its own (the extension walker may run zero times)
        'trait_result_hooks': {TRAIT_MEM + 'take_frag': after_take, TRAIT_MEM + 'new_frag': after_new_frag},
        'call_hooks': {TRAIT_MEM + 'save_frag': before_save},
        'ret_hooks': header_ghosts(facts),
        'max_worlds': 384,
    }
    if extra:
        for k, v in extra.items():
            if isinstance(v, dict) and k in cfg:
                cfg[k] = dict(cfg[k], **v)
            else:
                cfg[k] = v
    return cfg


def clru_key(facts):
    """the private method of the Encapsulator that decides the label to send: (&mut self, Label) -> Label.  Found by its
    signature, so that renaming it does not lose the anchor; falls back to the historical name."""
    c = getattr(facts, '_clru', None)
    if c is None:
        cands = []
        for k, bs in facts.by_key.items():
            for b in bs:
                if b.def_kind == 'AssocFn' and not b.derived and b.arg_count == 2 and 'Encapsulator' in (b.impl_self or {}).get('s', '') \
                        and b.local_ty(2).get('s') == 'label::Label' and b.local_ty(0).get('s') == 'label::Label' \
                        and b.local_ty(1).get('k') == 'ref' and b.local_ty(1).get('mut'):
                    cands.append(k)
        c = cands[0] if len(cands) == 1 else ENC + 'check_label_re_use'
        facts._clru = c
    return c


def walker_key(facts):
    """the free function that walks the extension-header chain: the one that asks the MandatoryHeaderExtensionManager"""
    c = getattr(facts, '_walker', None)
    if c is None:
        cands = []
        for k, bs in facts.by_key.items():
            for b in bs:
                if b.def_kind != 'Fn' or b.derived:
                    continue
                for blk in b.blocks:
                    t = blk['term']
                    if t['t'] == 'call' and 'fn' in t['func'] and t['func']['fn'].get('trait', '').endswith('MandatoryHeaderExtensionManager'):
                        cands.append(k)
                        break
        cands = sorted(set(cands))
        c = cands[0] if len(cands) == 1 else 'gse_decap::iterate_over_extension_header'
        facts._walker = c
    return c


def kind_of(W):
    """decoded packet kind of world W: 0 complete, 1 first, 2 intermediate, 3 end (None: not a single kind)"""
    k = W.mem.get(('G', 'kind'))
    if k is not None and k[0] == 'enum' and len(k[1]) == 1:
        return k[1][0][0]
    return None


KIND_FN = {0: 'decap_complete', 1: 'decap_first', 2: 'decap_intermediate', 3: 'decap_end'}       # names used in messages only
RGH = 'gse_decap::read_gse_header'
KIND_NO = {'CompletePkt': 0, 'FirstFragPkt': 1, 'IntermediateFragPkt': 2, 'EndFragPkt': 3}


def header_ghosts(facts):
    """ghosts `kind` (0 complete, 1 first, 2 intermediate, 3 end) and, for start / complete packets, `lt` (the LabelType value):
    what the public decoder read_gse_header answered for this packet.  The decoder builds each (kind, label type) pair in its
    own arm, so the ghosts are single variants and keep the worlds of different packet kinds apart.  (Earlier versions set them
    when the private helpers decap_complete / decap_first / ... were called: that tied the rules to the helpers' names.)"""
    def hook(I, w, frame, site, args, rv):
        if rv[0] != 'enum' or len(rv[1]) != 1 or rv[1][0][0] != 1:
            return
        tup = rv[1][0][1][0]
        if tup[0] != 'agg' or len(tup[1]) != 3:
            return
        k, l = tup[1][1], tup[1][2]
        if k[0] == 'enum' and len(k[1]) == 1:
            kn = KIND_NO.get(facts.variant_name('pkt_type::PktType', k[1][0][0]))
            if kn is not None:
                w.mem[('G', 'kind')] = ('enum', ((kn, ()),))
                if kn in (0, 1):
                    w.mem[('G', 'lt')] = l
    return {RGH: hook}


def mem_invariant(facts):
    """struct invariant of SimpleGseMemory: frags.len() == max_frag_id (established by `new`,
    the only writer of both fields: checked by the WHO rule of C17)"""
    i_frags = field_index(facts, SGM, 'frags')
    i_max = field_index(facts, SGM, 'max_frag_id')

    def assume(I, w, args):
        self_ref = args[0]
        if self_ref[0] != 'ref':
            raise Tooling("anchor lost: SimpleGseMemory method without &self")
        base = self_ref[1]
        frags = I.read(w, base.ext(('f', i_frags)))
        mx = I.read(w, base.ext(('f', i_max)))
        if frags[0] == 'box' and mx[0] == 'int':
            w.store = w.store.add_eq(I.seq_len(w, frags[1]), mx[1])
        else:
            raise Tooling("anchor lost: SimpleGseMemory.frags / max_frag_id shape changed")
    return assume


# ---------------------------------------------------------------------- sender side
LABEL_LEN = {'SixBytesLabel': 6, 'ThreeBytesLabel': 3, 'Broadcast': 0, 'ReUse': 0}     # ETSI TS 102 606, table 2
GEN_HDR = 'gse_encap::generate_gse_header'


def ghost(w, name):
    return w.mem.get(('G', name))


def encap_cfg(facts, out_buffer_root=None, extra=None):
    """configuration for analysing the writers: ghost variables record the arguments of the
    generate_gse_header call and the intervals written into the output buffer"""
    holder = {'buf': out_buffer_root}

    def on_header(I, w, frame, site, key, args):
        # args: &PktType, &LabelType, gse_len:u16
        kind = I.read(w, args[0][1]) if args[0][0] == 'ref' else None
        lt = I.read(w, args[1][1]) if args[1][0] == 'ref' else None
        n = w.mem.get(('G', 'hdr_calls'), ('int', Lin.c(0)))
        w.mem[('G', 'hdr_calls')] = ('int', n[1] + 1)
        w.mem[('G', 'hdr_kind')] = kind if kind is not None else ('top', None, 'ghost', 'kind')
        w.mem[('G', 'hdr_lt')] = lt if lt is not None else ('top', None, 'ghost', 'lt')
        w.mem[('G', 'hdr_len')] = args[2]

    def on_write(I, w, frame, site, base, start, ln, src):
        if holder['buf'] is None or base.root != holder['buf'] or base.path:
            return
        cur = w.mem.get(('G', 'writes'), ('agg', ()))
        if cur[0] != 'agg':
            return
        # the set of written intervals, adjacent ones coalesced (a cursor-driven writer keeps a single growing prefix, also
        # inside loops); a write that is neither adjacent to nor provably disjoint from what was written before is recorded
        if w.store.entails_eq(ln, Lin.c(0)):
            return                         # writes nothing
        ivs = [(x[1][0][1], x[1][1][1]) for x in cur[1]]
        merged = False
        for i, (s0, l0) in enumerate(ivs):
            if w.store.entails_eq(s0 + l0, start):
                ivs[i] = (s0, l0 + ln)
                merged = True
                break
            if w.store.entails_eq(start + ln, s0):
                ivs[i] = (start, l0 + ln)
                merged = True
                break
        if not merged:
            for (s0, l0) in ivs:
                if not (w.store.entails(le(s0 + l0, start)) or w.store.entails(le(start + ln, s0))):
                    I.rec(frame, site[1], 'event', site, ('write_overlap', start, ln, s0, l0, w.fork()))
                    break
            ivs.append((start, ln))
        w.mem[('G', 'writes')] = ('agg', tuple(('agg', (('int', a), ('int', b))) for a, b in ivs))

    def after_header(I, w, frame, site, args, rv):
        w.mem[('G', 'hdr_val')] = rv

    def after_crc(I, w, frame, site, args, rv):
        w.mem[('G', 'crc_val')] = rv

    cfg = {'kslots': int(os.environ.get('VERIF_KSLOTS', '6')), 'merge': os.environ.get('VERIF_MERGE', 'global'), 'diff_templates': os.environ.get('VERIF_DT', '0') == '1', 'call_hooks': {GEN_HDR: on_header}, 'write_hook': on_write, '_holder': holder,
           'ret_hooks': {GEN_HDR: after_header, 'crc::CrcCalculator::calculate_crc32': after_crc}}
    if extra:
        for k, v in extra.items():
            if k in ('call_hooks', 'ret_hooks'):
                cfg[k].update(v)
            else:
                cfg[k] = v
    return cfg


def analyse_writer(ck, key, tag='', extra=None, premise=None):
    """analyse an emitter (function with a `buffer: &mut [u8]` parameter) with the ghosts on"""
    cfg = encap_cfg(ck.facts, extra=extra)

    def bind(I, w, args):
        body = ck.facts.body(key)
        cfg['_holder']['buf'] = args[param_index(body, 'buffer') - 1][1].root
        if premise:
            premise(I, w, args, body)
    return ck.analyse(key, cfg, assume=bind, tag=tag)


def ret_alts(rv):
    """[(variant idx, payload fields)] of a Result-like return value"""
    if rv[0] != 'enum':
        return None
    return list(rv[1])


def same_or_refined(init, final, w=None):
    """final is the initial value, or a refinement of it (fewer enum alternatives, an atom the
    store pins to the same value)"""
    if init == final:
        return True
    if init[0] == 'int' and final[0] == 'int' and w is not None:
        return w.store.entails_eq(init[1], final[1])
    if init[0] == 'enum' and final[0] == 'enum':
        di = dict(init[1])
        for v, fs in final[1]:
            if v not in di or len(di[v]) != len(fs):
                return False
            if not all(same_or_refined(a, b, w) for a, b in zip(di[v], fs)):
                return False
        return True
    if init[0] == 'agg' and final[0] == 'agg' and len(init[1]) == len(final[1]):
        return all(same_or_refined(a, b, w) for a, b in zip(init[1], final[1]))
    if init[0] == 'top' and final[0] != 'moved':
        # the initial unknown was only looked at (expanded), never assigned: expansion keeps
        # the value; assignments create values with different provenance
        return final[0] in ('agg', 'enum', 'int', 'bool') and _only_expansion(init, final)
    return False


def _only_expansion(init, final):
    name = init[3] if len(init) > 3 else None
    if name is None:
        return False
    return _mentions_origin(final, name)


def _mentions_origin(v, name):
    t = v[0]
    if t == 'top':
        return len(v) > 3 and str(v[3]).startswith(name)
    if t == 'int':
        return all(ATOMS.info(a).name.startswith(name) for a in v[1].atoms()) and bool(v[1].atoms())
    if t == 'agg':
        return all(_mentions_origin(x, name) for x in v[1])
    if t == 'enum':
        return all(_mentions_origin(x, name) for _, fs in v[1] for x in fs)
    if t == 'bool':
        return True
    return False


# ---------------------------------------------------------------------- layout tables
PKT = 'pkt_type::PktType'


def hdr_partition(facts, W):
    """(packet kind name, label type name) recorded by the generate_gse_header hook in world W"""
    k, l = ghost(W, 'hdr_kind'), ghost(W, 'hdr_lt')
    if k is None or l is None or k[0] != 'enum' or l[0] != 'enum' or len(k[1]) != 1 or len(l[1]) != 1:
        return None
    return (facts.variant_name(PKT, k[1][0][0]), facts.variant_name('label::LabelType', l[1][0][0]))


def writer_env(ck, a, wname):
    """symbolic names of the inputs of a writer"""
    f = ck.facts
    env = {'P': a.arg('pdu')[3], 'pdu_root': a.arg('pdu')[1].root, 'B': a.arg('buffer')[3], 'buf_root': a.arg('buffer')[1].root}
    if wname in ('encap', 'encap_ext'):
        md = a.arg('metadata')
        env['ptype'] = md[1][field_index(f, 'gse_encap::EncapMetadata', 'protocol_type')][1]
        env['frag_id'] = a.arg('frag_id')[1]
        # label bytes are recognised by their provenance (the payload arrays of metadata.label), not by the name of a local
        lab = md[1][field_index(f, 'gse_encap::EncapMetadata', 'label')]
        env['label_contents'] = {fs[0][2] for _, fs in lab[1] if fs and fs[0][0] == 'arr'} if lab[0] == 'enum' else set()
    else:
        ctx = a.I.read(a.w0, a.arg('context')[1])
        env['frag_id'] = ctx[1][field_index(f, 'gse_encap::ContextFrag', 'frag_id')][1]
        env['crc'] = ctx[1][field_index(f, 'gse_encap::ContextFrag', 'crc')][1]
        env['c'] = ctx[1][field_index(f, 'gse_encap::ContextFrag', 'len_pdu_frag')][1]
    env['root_fid'] = [fid for fid, fr in a.I.frames.items() if fr.body is a.body and fr.ctx == ()][0]
    return env


def describe_src(a, env, W, src, L):
    """classify the provenance of written bytes against the inputs of the writer"""
    def eq(x, y):
        return W.store.entails_eq(x, y)
    if src[0] == 'value':
        v = src[1]
        if v[0] == 'int' and eq(v[1], env['frag_id']):
            return ('frag_id',)
        return ('value?', str(v))
    if src[0] == 'arr':
        content = src[1]
        base = src[4] if len(src) > 4 else None
        if content[0] == 'be':
            X, n = content[1], content[2]
            hv = ghost(W, 'hdr_val')
            if hv is not None and hv[0] == 'int' and X == hv[1] and n == 2:
                return ('header',)
            if n == 1 and eq(X, env['frag_id']):
                return ('frag_id',)
            if n == 2 and 'ptype' in env and eq(X, env['ptype']):
                return ('ptype',)
            if n == 2 and L is not None and eq(X, env['P'] + 2 + L):
                return ('total_len',)
            cv = ghost(W, 'crc_val')
            if n == 4 and ((cv is not None and cv[0] == 'int' and X == cv[1]) or ('crc' in env and eq(X, env['crc']))):
                return ('crc',)
            return ('be?', X.pretty(), n)
        if content in env.get('label_contents', ()):
            return ('label',)
        if content[0] == 'elems' and not content[1]:
            return ('label',)        # the empty byte string returned by get_bytes for Broadcast / ReUse
        if content[0] == 'elems' and len(content[1]) == 1 and content[1][0][0] == 'int' and eq(content[1][0][1], env['frag_id']):
            return ('frag_id',)      # `[frag_id]` instead of `frag_id.to_be_bytes()`
        return ('arr?', str(content)[:80])
    if src[0] == 'seq':
        base, st, ln = src[1], src[2], src[3]
        if base.root == env['pdu_root'] and not base.path:
            return ('pdu', st, ln)
        return ('seq?', str(base))
    return ('?', str(src)[:80])


def writer_rows(ck, a, wname):
    """rows (partition, start, len, descriptor, world, site) of every write into the output buffer"""
    env = writer_env(ck, a, wname)
    rows = []
    for r in a.records:
        if r.kind != 'event':
            continue
        if r.data[0] == 'write':
            _, base, start, ln, src = r.data[:5]
            W = r.data[6]
        elif r.data[0] == 'store' and r.data[1].path and r.data[1].path[-1][0] == 'i':
            loc = r.data[1]
            base, start, ln, src = Loc(loc.root, loc.path[:-1]), loc.path[-1][1], Lin.c(1), ('value', r.data[2])
            W = r.data[4]
        else:
            continue
        if base.root != env['buf_root'] or base.path:
            continue
        part = hdr_partition(ck.facts, W)
        later = later_headers(ck.facts, a, W) if part is None else None
        if later:
            # a write that happens before the header is built (the CRC trailer of an end fragment written first): it belongs to
            # the packets whose header calls the path goes on to reach, and is judged in their worlds
            for part2, Wh, gv in later:
                L = Lin.c(LABEL_LEN[part2[1]])
                rows.append({'part': part2, 'start': start, 'len': ln, 'src': describe_src(a, env, Wh, src, L), 'raw': src, 'W': Wh, 'site': r.site, 'g': gv})
            continue
        L = Lin.c(LABEL_LEN[part[1]]) if part else None
        rows.append({'part': part, 'start': start, 'len': ln, 'src': describe_src(a, env, W, src, L), 'raw': src, 'W': W, 'site': r.site})
    return env, rows


def later_headers(facts, a, W):
    """[(partition, world at the header call, GSE length passed)] of the generate_gse_header calls that the path of W goes on to
    reach (every constraint of W still holds there), when there is at least one and they all agree on packet kind and label
    type; None otherwise (the caller then reports the write as unplaced)"""
    if ghost(W, 'hdr_calls') is not None:
        return None
    out = []
    for r in a.events('call'):
        if r.data[1] != GEN_HDR:
            continue
        Wh = r.data[5]
        if W.store.cons <= Wh.store.cons:
            kv = a.I.read(Wh.fork(), r.data[3][0][1]) if r.data[3][0][0] == 'ref' else None
            lv = a.I.read(Wh.fork(), r.data[3][1][1]) if r.data[3][1][0] == 'ref' else None
            if kv is None or lv is None or kv[0] != 'enum' or lv[0] != 'enum' or len(kv[1]) != 1 or len(lv[1]) != 1:
                return None
            out.append(((facts.variant_name(PKT, kv[1][0][0]), facts.variant_name('label::LabelType', lv[1][0][0])), Wh, r.data[3][2]))
    if not out or len({p_ for p_, _, _ in out}) != 1:
        return None
    return out


# independent reading of ETSI TS 102 606 (clause 4.2): field order and sizes per packet kind.
# offsets are functions of the label length L; `n` is the payload carried by the packet.
def spec_fields(kind, L):
    if kind == 'CompletePkt':
        return [('header', 0, 2), ('ptype', 2, 2), ('label', 4, L), ('pdu', 4 + L, None)]
    if kind == 'FirstFragPkt':
        return [('header', 0, 2), ('frag_id', 2, 1), ('total_len', 3, 2), ('ptype', 5, 2), ('label', 7, L), ('pdu', 7 + L, None)]
    if kind == 'IntermediateFragPkt':
        return [('header', 0, 2), ('frag_id', 2, 1), ('pdu', 3, None)]
    if kind == 'EndFragPkt':
        return [('header', 0, 2), ('frag_id', 2, 1), ('pdu', 3, None), ('crc', None, 4)]
    raise KeyError(kind)


STATUS_OF_KIND = {'CompletePkt': 'CompletedPkt', 'FirstFragPkt': 'FragmentedPkt', 'IntermediateFragPkt': 'FragmentedPkt', 'EndFragPkt': 'CompletedPkt'}


def has_trunc(lin_):
    return any(isinstance(ATOMS.info(a).defn, tuple) and ATOMS.info(a).defn and ATOMS.info(a).defn[0] == 'trunc' for a in lin_.atoms())


def feasible_with(w, *cons):
    """can the world be extended with the given constraints?  The linear store plus the recorded disequalities (`x != y` facts,
    which the store itself cannot hold): a disequality whose two sides are forced equal by store + constraints refutes it"""
    st = w.store
    for c in cons:
        st = st.add(c)
    if st.is_bottom():
        return False
    for k, v in w.facts.items():
        if v is True and isinstance(k, tuple) and len(k) == 2 and k[0] == 'ne' and isinstance(k[1], Lin):
            if st.entails_eq(k[1], Lin.c(0)):
                return False
    return True


def known_ne(w, a, b):
    """the world knows a != b (strict order in the store, or a recorded disequality fact)"""
    if isinstance(b, int):
        b = Lin.c(b)
    if w.store.entails(lt(a, b)) or w.store.entails(lt(b, a)):
        return True
    d = a - b
    if not d.terms:
        return d.const != 0
    d = d if d.terms[0][1] > 0 else -d
    return w.facts.get(('ne', d)) is True
