"""LIN domain: linear integer expressions over atoms, constraint stores, and an
in-domain decision procedure (equality substitution + Fourier-Motzkin elimination over Q
with integer tightening).  No external solver; pure python3.

A constraint is a Lin `e`, meaning  e <= 0.
"""
from math import gcd
from functools import reduce


class AtomInfo:
    __slots__ = ('id', 'name', 'lo', 'hi', 'defn', 'kind')

    def __init__(self, id, name, lo, hi, defn=None, kind=None):
        self.id = id
        self.name = name
        self.lo = lo
        self.hi = hi
        self.defn = defn      # symbolic definition (provenance), e.g. ('be', obj, start, n)
        self.kind = kind

    def __repr__(self):
        return self.name


class Atoms:
    """global registry of atoms (integer unknowns)."""

    def __init__(self):
        self.infos = []
        self.by_key = {}

    def fresh(self, name, lo=None, hi=None, defn=None, key=None, kind=None):
        if key is not None and key in self.by_key:
            return self.by_key[key]
        i = len(self.infos)
        # make printable names unique
        nm = name
        self.infos.append(AtomInfo(i, nm, lo, hi, defn, kind))
        if key is not None:
            self.by_key[key] = i
        return i

    def info(self, a):
        return self.infos[a]

    def name(self, a):
        inf = self.infos[a]
        return f"{inf.name}#{a}"


ATOMS = Atoms()


class Lin:
    """immutable linear expression  const + sum coef*atom  (all ints)."""
    __slots__ = ('terms', 'const', '_h')

    def __init__(self, terms=(), const=0):
        # terms: tuple of (atom, coef) sorted by atom, coef != 0
        self.terms = terms
        self.const = const
        self._h = None

    @staticmethod
    def c(k):
        return Lin((), int(k))

    @staticmethod
    def atom(a, coef=1):
        return Lin(((a, coef),), 0)

    @staticmethod
    def from_dict(d, const=0):
        return Lin(tuple(sorted((a, c) for a, c in d.items() if c != 0)), const)

    def as_dict(self):
        return dict(self.terms)

    def is_const(self):
        return not self.terms

    def atoms(self):
        return [a for a, _ in self.terms]

    def coef(self, a):
        for x, c in self.terms:
            if x == a:
                return c
        return 0

    def __add__(self, o):
        if isinstance(o, int):
            return Lin(self.terms, self.const + o)
        d = dict(self.terms)
        for a, c in o.terms:
            d[a] = d.get(a, 0) + c
        return Lin.from_dict(d, self.const + o.const)

    def __neg__(self):
        return Lin(tuple((a, -c) for a, c in self.terms), -self.const)

    def __sub__(self, o):
        if isinstance(o, int):
            return Lin(self.terms, self.const - o)
        return self + (-o)

    def scale(self, k):
        if k == 0:
            return Lin.c(0)
        return Lin(tuple((a, c * k) for a, c in self.terms), self.const * k)

    def subst(self, a, e):
        """replace atom a by Lin e"""
        c = self.coef(a)
        if c == 0:
            return self
        d = dict(self.terms)
        del d[a]
        r = Lin.from_dict(d, self.const)
        return r + e.scale(c)

    def __eq__(self, o):
        return isinstance(o, Lin) and self.terms == o.terms and self.const == o.const

    def __hash__(self):
        if self._h is None:
            self._h = hash((self.terms, self.const))
        return self._h

    def __repr__(self):
        if not self.terms:
            return str(self.const)
        parts = []
        for a, c in self.terms:
            n = ATOMS.name(a)
            if c == 1:
                parts.append(f"+{n}")
            elif c == -1:
                parts.append(f"-{n}")
            else:
                parts.append(f"{c:+d}*{n}")
        s = ''.join(parts).lstrip('+')
        if self.const:
            s += f"{self.const:+d}"
        return s

    def pretty(self):
        """like repr but without atom ids when names are unique enough"""
        if not self.terms:
            return str(self.const)
        parts = []
        for a, c in self.terms:
            n = ATOMS.info(a).name
            if c == 1:
                parts.append(f"+{n}")
            elif c == -1:
                parts.append(f"-{n}")
            else:
                parts.append(f"{c:+d}*{n}")
        s = ''.join(parts).lstrip('+')
        if self.const:
            s += f"{self.const:+d}"
        return s


def combine_norm(p, kn, n, kp):
    """normalize(p*kn + n*kp) fused (p, n: Lin; kn, kp: positive ints). Returns Lin / True / False."""
    a, b = p.terms, n.terms
    i = j = 0
    la, lb = len(a), len(b)
    out = []
    g = 0
    while i < la and j < lb:
        xa, ca = a[i]
        xb, cb = b[j]
        if xa == xb:
            c = ca * kn + cb * kp
            if c:
                out.append((xa, c))
                g = gcd(g, c)
            i += 1
            j += 1
        elif xa < xb:
            c = ca * kn
            out.append((xa, c))
            g = gcd(g, c)
            i += 1
        else:
            c = cb * kp
            out.append((xb, c))
            g = gcd(g, c)
            j += 1
    while i < la:
        xa, ca = a[i]
        c = ca * kn
        out.append((xa, c))
        g = gcd(g, c)
        i += 1
    while j < lb:
        xb, cb = b[j]
        c = cb * kp
        out.append((xb, c))
        g = gcd(g, c)
        j += 1
    k = p.const * kn + n.const * kp
    if not out:
        return k <= 0
    if g > 1:
        return Lin(tuple((x, c // g) for x, c in out), -((-k) // g))
    return Lin(tuple(out), k)


def normalize(e):
    """normalise constraint e<=0: divide by gcd of coefs, tighten constant. Returns Lin or
    True (trivially true) / False (trivially false)."""
    if not e.terms:
        return e.const <= 0
    g = reduce(gcd, (abs(c) for _, c in e.terms))
    if g > 1:
        # sum (c/g) x <= floor(-k/g)  ->  const' = -floor(-k/g) = ceil(k/g)
        k = e.const
        newc = -((-k) // g)
        e = Lin(tuple((a, c // g) for a, c in e.terms), newc)
    return e


def le(a, b):
    """constraint a <= b"""
    return a - b


def lt(a, b):
    """constraint a < b  (integers)"""
    return a - b + 1


FM_LIMIT = 4000
_infeasible_cache = {}
STATS = {'fm_calls': 0, 'fm_cache_hits': 0, 'fm_giveup': 0}


def _atom_bounds(atoms):
    out = []
    for a in atoms:
        inf = ATOMS.info(a)
        if inf.lo is not None:
            out.append(Lin.atom(a, -1) + inf.lo)      # lo - a <= 0
        if inf.hi is not None:
            out.append(Lin.atom(a, 1) - inf.hi)       # a - hi <= 0
    return out


def _relevant(cons, seed_atoms):
    """constraints connected (by shared atoms) to the seed atoms"""
    cons = list(cons)
    by_atom = {}
    for i, c in enumerate(cons):
        for a, _ in c.terms:
            by_atom.setdefault(a, []).append(i)
    seen_atoms = set()
    seen_cons = set()
    stack = list(seed_atoms)
    while stack:
        a = stack.pop()
        if a in seen_atoms:
            continue
        seen_atoms.add(a)
        for i in by_atom.get(a, ()):
            if i in seen_cons:
                continue
            seen_cons.add(i)
            for b, _ in cons[i].terms:
                if b not in seen_atoms:
                    stack.append(b)
    return [cons[i] for i in sorted(seen_cons)], seen_atoms


def infeasible(cons):
    """True iff the conjunction of constraints (each e<=0) has no rational (hence no
    integer) solution, as far as FM with integer tightening can tell. Sound: True means
    really infeasible over the integers. Atom bounds must be included by the caller."""
    work = set()
    for c in cons:
        n = normalize(c)
        if n is False:
            return True
        if n is True:
            continue
        work.add(n)
    key = frozenset(work)
    if key in _infeasible_cache:
        STATS['fm_cache_hits'] += 1
        return _infeasible_cache[key]
    STATS['fm_calls'] += 1
    tight = _propagate(work)
    if tight is None:
        res = True
    else:
        res = _infeasible(work | tight)
    _infeasible_cache[key] = res
    return res


def _propagate(work, rounds=8):
    """integer bound propagation. returns None if a conflict is found, else a set of unary
    constraints (tightened atom bounds) implied by `work` over the integers."""
    lo = {}
    hi = {}
    multi = []
    for c in work:
        if len(c.terms) == 1:
            (a, k), = c.terms
            if k > 0:
                v = (-c.const) // k
                if a not in hi or v < hi[a]:
                    hi[a] = v
            else:
                v = -((-c.const) // (-k))
                if a not in lo or v > lo[a]:
                    lo[a] = v
        else:
            multi.append(c)
    for a in set(lo) & set(hi):
        if lo[a] > hi[a]:
            return None
    changed_any = False
    for _ in range(rounds):
        changed = False
        for c in multi:
            # sum k_i x_i + const <= 0
            # minimal value of each term
            mins = []
            ok_count = 0
            total = c.const
            missing = None
            for a, k in c.terms:
                b = lo.get(a) if k > 0 else hi.get(a)
                if b is None:
                    if missing is not None:
                        missing = False
                        break
                    missing = a
                else:
                    total += k * b
            if missing is False:
                continue
            for a, k in c.terms:
                if missing is not None and a != missing:
                    continue
                b = lo.get(a) if k > 0 else hi.get(a)
                rest = total - (k * b if b is not None else 0)
                # k*x <= -rest
                if k > 0:
                    v = (-rest) // k
                    if a not in hi or v < hi[a]:
                        hi[a] = v
                        changed = True
                        if a in lo and lo[a] > v:
                            return None
                else:
                    v = -((-rest) // (-k))
                    if a not in lo or v > lo[a]:
                        lo[a] = v
                        changed = True
                        if a in hi and hi[a] < v:
                            return None
        if not changed:
            break
        changed_any = True
    out = set()
    for a, v in hi.items():
        out.add(Lin(((a, 1),), -v))
    for a, v in lo.items():
        out.add(Lin(((a, -1),), v))
    return out


def _infeasible(work):
    work = set(work)
    # --- equality substitution
    progress = True
    while progress:
        progress = False
        for c in list(work):
            if c not in work:
                continue
            nc = normalize(-c)
            if nc is True or nc is False:
                continue
            if nc in work:
                # c == 0 ; find unit-coefficient atom
                pick = None
                for a, k in c.terms:
                    if abs(k) == 1:
                        pick = (a, k)
                        break
                if pick is None:
                    continue
                a, k = pick
                # k*a + rest = 0 -> a = -rest/k
                d = dict(c.terms)
                del d[a]
                rest = Lin.from_dict(d, c.const)
                e = rest.scale(-k)  # since k = +-1, 1/k = k
                new = set()
                bad = False
                for o in work:
                    if o is c or o == c or o == nc:
                        continue
                    s = normalize(o.subst(a, e))
                    if s is False:
                        bad = True
                        break
                    if s is True:
                        continue
                    new.add(s)
                if bad:
                    return True
                work = new
                progress = True
                break
    # --- Fourier-Motzkin
    while True:
        if not work:
            return False
        # occurrence counts
        pos = {}
        neg = {}
        for c in work:
            for a, k in c.terms:
                if k > 0:
                    pos[a] = pos.get(a, 0) + 1
                else:
                    neg[a] = neg.get(a, 0) + 1
        atoms = set(pos) | set(neg)
        if not atoms:
            return False
        best = None
        for a in atoms:
            p = pos.get(a, 0)
            n = neg.get(a, 0)
            cost = p * n - p - n
            if best is None or cost < best[0]:
                best = (cost, a)
        a = best[1]
        P = [c for c in work if c.coef(a) > 0]
        N = [c for c in work if c.coef(a) < 0]
        rest = set(c for c in work if c.coef(a) == 0)
        if P and N:
            for p in P:
                kp = p.coef(a)
                for n in N:
                    kn = -n.coef(a)
                    s = combine_norm(p, kn, n, kp)
                    if s is False:
                        return True
                    if s is True:
                        continue
                    rest.add(s)
            if len(rest) > FM_LIMIT:
                STATS['fm_giveup'] += 1
                return False
        work = _prune(rest)


def _prune(cons):
    """drop constraints dominated by another with identical terms and a larger constant"""
    best = {}
    for c in cons:
        k = c.terms
        if k not in best or c.const > best[k].const:
            best[k] = c
    return set(best.values())


class Store:
    """immutable conjunction of constraints e<=0."""
    __slots__ = ('cons', '_bot', '_u', '_eqs')

    def __init__(self, cons=frozenset()):
        self.cons = cons
        self._bot = None
        self._u = None
        self._eqs = None

    def add(self, *es):
        new = set(self.cons)
        changed = False
        for e in es:
            n = normalize(e)
            if n is True:
                continue
            if n is False:
                n = Lin.c(1)
            if n not in new:
                new.add(n)
                changed = True
        if not changed:
            return self
        return Store(frozenset(new))

    def add_eq(self, a, b):
        return self.add(a - b, b - a)

    def bottom_after(self, atoms):
        """is the store infeasible, looking only at the constraints connected to `atoms`
        (sufficient when the store was feasible before constraints over `atoms` were added)"""
        if self._bot is not None:
            return self._bot
        rel, ats = _relevant(self.cons, atoms)
        r = infeasible(rel + _atom_bounds(set(ats) | set(atoms)))
        if r:
            self._bot = True
        return r

    def is_bottom(self):
        if self._bot is None:
            atoms = set()
            for c in self.cons:
                atoms.update(c.atoms())
            self._bot = infeasible(list(self.cons) + _atom_bounds(atoms))
        return self._bot

    def entails(self, e):
        """store |= e <= 0 ?"""
        n = normalize(e)
        if n is True:
            return True
        if n is False:
            return self.is_bottom()
        if n in self.cons:
            return True
        qb = self.quick_bounds(n)
        if qb[1] is not None and qb[1] <= 0:
            return True
        negq = normalize(-n + 1)   # e >= 1
        if negq is False:
            return True
        rel, atoms = _relevant(self.cons, n.atoms())
        atoms = set(atoms) | set(n.atoms())
        return infeasible(rel + _atom_bounds(atoms) + [negq])

    def entails_eq(self, a, b):
        return self.entails(a - b) and self.entails(b - a)

    def satisfiable_with(self, *es):
        atoms = set()
        cs = list(self.cons) + list(es)
        for c in cs:
            atoms.update(c.atoms())
        return not infeasible(cs + _atom_bounds(atoms))

    def solved_eqs(self):
        """triangular substitution atom -> Lin obtained from the equalities in the store
        (both e<=0 and -e<=0 present), eliminating the newest atoms first"""
        if self._eqs is not None:
            return self._eqs
        eqs = []
        seen = set()
        for c in self.cons:
            if c in seen:
                continue
            nc = normalize(-c)
            if nc is not True and nc is not False and nc in self.cons:
                seen.add(c)
                seen.add(nc)
                eqs.append(c)
        sub = {}
        order = []
        for e in sorted(eqs, key=repr):
            for a in order:
                if e.coef(a):
                    e = e.subst(a, sub[a])
            pick = None
            for a, k in sorted(e.terms, reverse=True):
                if abs(k) == 1:
                    pick = (a, k)
                    break
            if pick is None:
                continue
            a, k = pick
            d = dict(e.terms)
            del d[a]
            rhs = Lin.from_dict(d, e.const).scale(-k)
            for b in order:
                if sub[b].coef(a):
                    sub[b] = sub[b].subst(a, rhs)
            sub[a] = rhs
            order.append(a)
        self._eqs = (sub, order)
        return self._eqs

    def canon(self, e):
        sub, order = self.solved_eqs()
        for a in order:
            if e.coef(a):
                e = e.subst(a, sub[a])
        return e

    def _unary(self):
        u = getattr(self, '_u', None)
        if u is None:
            u = {}
            for c in self.cons:
                if len(c.terms) == 1:
                    (a, k), = c.terms
                    lo, hi = u.get(a, (None, None))
                    if k > 0:      # k*a + const <= 0 -> a <= floor(-const/k)
                        v = (-c.const) // k
                        hi = v if hi is None else min(hi, v)
                    else:          # a >= ceil(const/-k)
                        v = -((-c.const) // (-k))
                        lo = v if lo is None else max(lo, v)
                    u[a] = (lo, hi)
            self._u = u
        return u

    def quick_bounds(self, e):
        """interval bounds from atom type ranges and unary constraints only (cheap)"""
        u = self._unary()
        lo = hi = e.const
        for a, k in e.terms:
            inf = ATOMS.info(a)
            alo, ahi = inf.lo, inf.hi
            ul, uh = u.get(a, (None, None))
            if ul is not None and (alo is None or ul > alo):
                alo = ul
            if uh is not None and (ahi is None or uh < ahi):
                ahi = uh
            if k > 0:
                lo = None if (lo is None or alo is None) else lo + k * alo
                hi = None if (hi is None or ahi is None) else hi + k * ahi
            else:
                lo = None if (lo is None or ahi is None) else lo + k * ahi
                hi = None if (hi is None or alo is None) else hi + k * alo
        return (lo, hi)

    def bounds(self, e):
        """(lo, hi) constant bounds of e implied by the store (None = unbounded/unknown);
        found by bisection-free search over candidate constants from entailment of
        e<=k for a few k derived by eliminating all atoms (FM projection)."""
        rel, atoms = _relevant(self.cons, e.atoms())
        atoms = set(atoms) | set(e.atoms())
        t = ATOMS.fresh('_t')
        base = rel + _atom_bounds(atoms) + [e - Lin.atom(t), Lin.atom(t) - e]
        nb = set()
        for c in base:
            n = normalize(c)
            if n is False:
                return (1, 0)
            if n is not True:
                nb.add(n)
        tight = _propagate(nb)
        if tight is None:
            return (1, 0)
        base = list(nb | tight)
        proj = _project(base, t)
        lo = hi = None
        if proj is None:
            return (None, None)
        for c in proj:
            k = c.coef(t)
            if k > 0:       # k*t + const <= 0 -> t <= -const/k
                v = (-c.const) // k
                hi = v if hi is None else min(hi, v)
            elif k < 0:     # t >= const/(-k)
                v = -((-c.const) // (-k))
                lo = v if lo is None else max(lo, v)
        return (lo, hi)

    def __repr__(self):
        return '{' + ', '.join(f"{c!r}<=0" for c in sorted(self.cons, key=repr)) + '}'


def _project(cons, keep):
    """eliminate every atom except `keep` (FM). returns list of constraints over keep, or None
    on blowup / infeasible."""
    work = set()
    for c in cons:
        n = normalize(c)
        if n is False:
            return None
        if n is True:
            continue
        work.add(n)
    # equality substitution (never eliminate `keep`)
    progress = True
    while progress:
        progress = False
        for c in list(work):
            nc = normalize(-c)
            if nc is True or nc is False or nc not in work:
                continue
            pick = None
            for a, k in c.terms:
                if abs(k) == 1 and a != keep:
                    pick = (a, k)
                    break
            if pick is None:
                continue
            a, k = pick
            d = dict(c.terms)
            del d[a]
            rest = Lin.from_dict(d, c.const)
            e = rest.scale(-k)
            new = set()
            for o in work:
                if o == c or o == nc:
                    continue
                s = normalize(o.subst(a, e))
                if s is False:
                    return None
                if s is True:
                    continue
                new.add(s)
            work = new
            progress = True
            break
    while True:
        atoms = set()
        for c in work:
            atoms.update(c.atoms())
        atoms.discard(keep)
        if not atoms:
            return list(work)
        best = None
        for a in atoms:
            p = sum(1 for c in work if c.coef(a) > 0)
            n = sum(1 for c in work if c.coef(a) < 0)
            cost = p * n - p - n
            if best is None or cost < best[0]:
                best = (cost, a)
        a = best[1]
        P = [c for c in work if c.coef(a) > 0]
        N = [c for c in work if c.coef(a) < 0]
        rest = set(c for c in work if c.coef(a) == 0)
        for p in P:
            kp = p.coef(a)
            for n in N:
                kn = -n.coef(a)
                s = combine_norm(p, kn, n, kp)
                if s is False:
                    return None
                if s is True:
                    continue
                rest.add(s)
        if len(rest) > FM_LIMIT:
            return None
        work = _prune(rest)


if __name__ == '__main__':
    # self-test
    B = ATOMS.fresh('B', 0, 2**63 - 1)
    P = ATOMS.fresh('P', 0, 2**63 - 1)
    L = ATOMS.fresh('L', 0, 6)
    s = Store().add(le(Lin.atom(P) + Lin.atom(L) + 4, Lin.atom(B)))
    assert s.entails(le(Lin.atom(L) + 4, Lin.atom(B)))
    assert not s.entails(le(Lin.atom(P) + 11, Lin.atom(B)))
    assert s.entails(le(Lin.c(4), Lin.atom(B)))
    print(s.bounds(Lin.atom(B)), s.bounds(Lin.atom(L) + 3))
    s2 = s.add(lt(Lin.atom(B), Lin.c(3)))
    assert s2.is_bottom()
    print('ok', STATS)
