"""data behind MANIFEST.json (one entry per claimed property)"""
REPO_FIX_COMMITS = []

CHECKS = {
    'C05': {
        'level': 'other',
        'design_ref': 'DESIGN.md section 7 / C05',
        'technique': 'abstract interpretation of MIR: every panic site is a proof obligation (linear constraints, Fourier-Motzkin entailment)',
        'text': 'Static proof obligations for panic-freedom of decap, the peek and the bundled memory over symbolic buffers and receiver states, plus consumed-length bounds at every return; all obligations must be discharged on the current tree. Decides totality and the consumed-length interval, for all inputs at once; it is not a run of the code.',
        'note': 'Trusts rustc MIR, the summaries of ~45 core/alloc functions (analysis/stdsum.py), contract-obeying user trait implementations, lengths <= isize::MAX.',
    },
}

_WIP = 'rule pack under construction in this session; not claimed until its check exists'
NOT_APPLICABLE = {f"C{i:02d}": _WIP for i in range(1, 21)}
