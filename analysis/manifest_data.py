"""data behind MANIFEST.json (one entry per claimed property)"""
REPO_FIX_COMMITS = ['6da798c', '302e796', 'c3a0a2b', '68ac071', 'a0135fb', 'ba05074', '8333b7b', 'fa964bf', 'c05a025', 'fd201bd', '7663959', '42d3acf', 'ba81f7d', 'b029d06', '46f4a4e', '47edf11', '3e29bbb', '1f79d06']

_T = 'Trusts rustc MIR construction (opt-level 0), the summaries of the core/alloc functions the crate calls (analysis/stdsum.py), the in-domain decision procedure of analysis/lin.py (Fourier-Motzkin + integer bound propagation), lengths <= isize::MAX, and user trait implementations obeying their documented contract.'


def _c(level, ref, technique, text, note=_T):
    return {'level': level, 'design_ref': ref, 'technique': technique, 'text': text, 'note': note}


CHECKS = {
    'C03': _c('other', 'DESIGN.md 7/C03', 'static must-pass-through and provenance rules over an abstract interpretation of the MIR',
              'Shows on the MIR of decap that a completed PDU of an end fragment is only constructed behind the full-width total-length equality and the CRC equality, computed over the taken storage and the first fragment\'s fields, with payloads appended at context.pdu_len. Decides the structural necessary conditions of "only verified PDUs are delivered" for every input and memory state; the burst-detection strength of CRC-32 is not a code property.'),
    'C04': _c('other', 'DESIGN.md 7/C04', 'exit-state (typestate) rules on both label memories over abstract-interpretation path summaries',
              'Per-transition obligations of the simulation invariant sender.last_label in {None, receiver.last_label}: mirror rule on every path of check_label_re_use, failure atomicity of encap/encap_ext, written label = decided label, receiver exit states per packet kind / label type / outcome. The induction over histories is a paper step.'),
    'C05': _c('other', 'DESIGN.md 7/C05', 'abstract interpretation of MIR: every panic site is a proof obligation (linear constraints, Fourier-Motzkin entailment)',
              'Static proof obligations for panic-freedom of decap, the peek and the bundled memory over symbolic buffers and receiver states, plus consumed-length bounds at every return; all obligations must be discharged. Decides totality and the consumed-length interval for all inputs at once.'),
    'C06': _c('other', 'DESIGN.md 7/C06', 'abstract interpretation with ghost state: value obligations at the header call, write-extent tiling, layout table vs ETSI table',
              'For every partition of encap / encap_frag / encap_ext: GSE length within 12 bits before the cast, returned length = GSE length + 2 <= buffer, written intervals disjoint and summing to the returned length, each field at its ETSI offset with the right provenance, kind matches status. The extension area of encap_ext is declined (loops).'),
    'C07': _c('other', 'DESIGN.md 7/C07', 'footprint (who-may-call with id provenance) and frame rule on scenario path summaries',
              'Per packet kind the memory operations performed and the provenance of the fragment id; under every slot scenario the bundled memory leaves a slot holding another id untouched. The quantifier over interleavings is the paper consequence of the frame rule.'),
    'C08': _c('other', 'DESIGN.md 7/C08', 'ownership / drop analysis on MIR (abstract interpretation tracking storage boxes through moves)',
              'No Drop terminator is reached on a normal edge while a place still owns a storage box obtained from the memory, on any path of decap and of the bundled memory; no clone of storage-carrying values. One known finding (save_frag refusal, needs an API change).'),
    'C09': _c('other', 'DESIGN.md 7/C09', 'abstract interpretation: panic obligations, effect analysis at Err returns (buffer written? state changed?), must-hold facts at the header call',
              'Panic-freedom of the five encapsulation entry points over symbolic sizes; at every Err return the output buffer is unwritten and every encapsulator field holds its initial abstract value; mandatory rejections are established before any packet is built. Loop-internal sites of encap_ext are declined and listed.'),
    'C10': _c('other', 'DESIGN.md 7/C10', 'return-provenance table and read-extent rules over the abstract interpretation of decap',
              'Consumed length per outcome is the decoded packet length or the buffer length as the walking rule requires; packet-level outcomes stay feasible when the buffer ends with the packet; all input slices end inside the packet; every remainder of two bytes or more is decoded and a padding header ends in Ok(Padding) consuming the rest; emitters never encode the padding pattern.'),
    'C11': _c('other', 'DESIGN.md 7/C11', 'path summaries of encap_frag with linear entailment / satisfiability obligations',
              'Every return of encap_frag classified by kind: progress (>= 1 byte), exact context advance, end packet exactly under its guard, size error only when nothing useful fits, payload windows pdu[pos..pos+n); first fragments count their payload. The call bound is the paper corollary.'),
    'C12': _c('proof', 'DESIGN.md 7/C12', 'constant table = generated table, symbolic term of the byte step, data-dependence chain, provenance at call sites',
              'Closed static argument that DefaultCrc is CRC-32/MPEG-2 over be(total length) | be(protocol type) | label | PDU and that the encapsulator passes these fields: 256 table words compared with the polynomial, the byte step term (fold closure or explicit loop over data) compared with the table-driven MSB-first step, the four chained calls and their seed, the call-site arguments of the encapsulator, and the receiver rules of C03 for the recomputation in decap_end (empty label after a re-use first fragment).'),
    'C14': _c('proof', 'DESIGN.md 7/C14', 'abstract evaluation of both codec functions per (kind, label type) cell with bit-field decomposition',
              'Finite closed argument: encoder returns K(kind,lt) + length on each of 16 cells, decoder partitions the 16-bit word into 15 Some cells satisfying word = K + length (length <= 4095) and the None cell word <= 0x0FFF, unreachable arms dead; hence both round trips.'),
    'C15': _c('other', 'DESIGN.md 7/C15', 'path summaries of check_label_re_use compared with the obligations of an inductive invariant; who-may-write rule',
              'Substitution only when enabled and equal to the remembered label, counter strictly below max and incremented, reset when the maximum is reached, nothing substituted with an empty memory, setters clear memory and counter. The step to "never more than N consecutive" is paper induction.'),
    'C17': _c('other', 'DESIGN.md 7/C17', 'scenario path summaries (abstract interpretation) compared with a specification table',
              'Each SimpleGseMemory method under every scenario its contract distinguishes returns exactly the specified value and leaves slot and free list as specified (identity of context and buffer objects); no method writes buffer contents; no push onto the free list without room (the list never outgrows its capacity).'),
    'C18': _c('other', 'DESIGN.md 7/C18', 'sibling cross-check: path summaries of preview and writer on shared symbolic inputs, joint satisfiability',
              'For every jointly satisfiable pair of return partitions of (encap_preview, encap) and (encap_frag_preview, encap_frag) the results agree (error kind, packet kind, packet length, payload length); previews take no mutable reference and store through none.'),
}

CHECKS.update({
    'C01': _c('other', 'DESIGN.md 7/C01', 'sender / receiver layout agreement against one ETSI table, guard equivalence and reject-path infeasibility by linear entailment over abstract-interpretation summaries',
              'Writer rows (C06 rules on encap), reader windows and metadata provenance of decap_complete, consumed length, infeasibility of every non-environment reject path for well-formed packets with sufficient storage, equivalence of the complete-packet guard with "fits 4095 and the buffer" per label kind with/without substitution, consistency of the label tables. Payload contents are reduced to copy provenance.'),
    'C02': _c('other', 'DESIGN.md 7/C02', 'per-step summaries of both sides (layout, bookkeeping, formula agreement, reject-path infeasibility); induction over schedules on paper',
              'Instances of the C06 / C11 / C12.R5 rules for the sender and of the C03 rules for the receiver, plus first-fragment windows / context fields, from_label_reuse = (type is re-use), infeasible reject paths per fragment kind, consumed = G+2. The quantifier over schedules is covered by a paper induction whose step is what is machine-checked.'),
    'C13': _c('other', 'DESIGN.md 7/C13', 'path summaries vs contract table (Extension::new, H-LEN table), value obligations and must-hold facts at the header call of encap_ext, forced-Unknown scenario of decap',
              'Claimed in part: constructor contract and no panic, one H-LEN table, lengths and header fields of encap_ext as in C06, only decodable (protocol type, last extension) combinations reach a packet, Unknown mandatory extension drops exactly the packet before any storage is taken, the receiver walker reads one contiguous prefix of the extension area and reports exactly its end, tables of the bundled managers. Equality of the recovered extension list is NOT decided (relational loop invariant out of reach).'),
    'C16': _c('other', 'DESIGN.md 7/C16', 'absence of poison state: state-dependence (who reads / writes the four fields), memory scenario table, panic and leak prerequisites re-decided',
              'A history can act on a later transfer only through last_label (read only for re-use labels, cleared by reset) and the memory (scenario table: serves the probe in every state, configuration never written); decap has no reachable panic and no leak. The success of the probe is the composition argument, not a computed fact.'),
    'C19': _c('other', 'DESIGN.md 7/C19', 'sibling layout agreement: return paths of the peek partitioned by decoded header cell vs the ETSI windows decap uses',
              'For each of the 15 non-padding header cells the peek returns the fragment id at byte 2, the label built from the window at 4 / 7, Lbl(Broadcast), or ErrLabelReuse; size errors are impossible for buffers as long as the shortest emitted packet of the cell; no reachable panic.'),
    'C20': _c('other', 'DESIGN.md 7/C20', 'layout agreement of the utils generate / parse functions with the ETSI field table (provenance of written bytes and of parsed fields)',
              'Every write of the four generate functions and every field returned by the four parse functions is at the offset / with the provenance the table prescribes per label type; generate passes kind constant, label type and gse_len to the shared encoder; parse accepts exactly its own kind.'),
})

_WIP = 'rule pack under construction in this session; not claimed until its check exists'
NOT_APPLICABLE = {f"C{i:02d}": _WIP for i in range(1, 21)}
