"""E1 — mirlib: load the facts written by gse-mir, CFG utilities, pretty printer.

Pure python3 standard library.
"""
import json
import re
from collections import defaultdict


def strip_generics(name):
    """`gse_encap::Encapsulator::<C>::encap` -> `gse_encap::Encapsulator::encap`;
    `<a::B<C> as t::T>::m` stays a trait-impl path but with generics removed."""
    out = []
    depth = 0
    i = 0
    n = len(name)
    # keep the leading '<' of a qualified path `<X as T>::m`
    while i < n:
        c = name[i]
        if c == '<':
            if i == 0 or (depth == 0 and name[i - 1] in ' (,&' ):
                # qualified-path opener or nested type position
                if i == 0:
                    out.append(c)
                    i += 1
                    continue
            # generic args: skip to matching '>'
            d = 0
            j = i
            while j < n:
                if name[j] == '<':
                    d += 1
                elif name[j] == '>' and name[j - 1] != '-':
                    d -= 1
                    if d == 0:
                        break
                j += 1
            # drop a preceding '::' (turbofish)
            if out[-2:] == [':', ':']:
                out = out[:-2]
            i = j + 1
            continue
        out.append(c)
        i += 1
    return ''.join(out)


class Body:
    def __init__(self, j):
        self.j = j
        self.name = j['name']
        self.key = strip_generics(self.name)
        self.def_kind = j['def_kind']
        self.arg_count = j['arg_count']
        self.locals = j['locals']
        self.blocks = j['blocks']
        self.public = j.get('public')
        self.derived = bool(j.get('derived'))
        self.impl_trait = j.get('impl_trait')
        self.impl_self = j.get('impl_self')
        self.item_name = j.get('item_name')
        self.span = j['span']
        self.debug = j['debug']
        self.local_names = {}
        for d in self.debug:
            p = d.get('place')
            if p is not None and not p['proj']:
                self.local_names.setdefault(p['local'], d['name'])
        self.ext = False
        self._succ = None
        self._pred = None

    def local_ty(self, i):
        return self.locals[i]['ty']

    def lname(self, i):
        n = self.local_names.get(i)
        return f"_{i}" + (f"«{n}»" if n else '')

    # ---- CFG
    def term_targets(self, bi, include_cleanup=False):
        t = self.blocks[bi]['term']
        k = t['t']
        out = []
        if k == 'goto':
            out.append(t['target'])
        elif k == 'switch':
            out.extend(c[1] for c in t['cases'])
            out.append(t['otherwise'])
        elif k in ('drop', 'assert'):
            out.append(t['target'])
        elif k == 'call':
            if t['target'] is not None:
                out.append(t['target'])
        if include_cleanup and 'cleanup' in t:
            out.append(t['cleanup'])
        return out

    def succ(self):
        if self._succ is None:
            self._succ = {b['i']: self.term_targets(b['i']) for b in self.blocks}
        return self._succ

    def pred(self):
        if self._pred is None:
            p = defaultdict(list)
            for a, ss in self.succ().items():
                for s in ss:
                    p[s].append(a)
            self._pred = p
        return self._pred

    def reachable_from(self, start, stop=lambda b: False):
        seen = set()
        st = [start]
        while st:
            b = st.pop()
            if b in seen:
                continue
            seen.add(b)
            if stop(b):
                continue
            st.extend(self.succ()[b])
        return seen

    def rpo(self):
        seen = set()
        order = []

        def dfs(b):
            stack = [(b, iter(self.succ()[b]))]
            seen.add(b)
            while stack:
                n, it = stack[-1]
                adv = False
                for s in it:
                    if s not in seen:
                        seen.add(s)
                        stack.append((s, iter(self.succ()[s])))
                        adv = True
                        break
                if not adv:
                    order.append(n)
                    stack.pop()
        dfs(0)
        order.reverse()
        return order

    def dominators(self):
        """immediate dominators (Cooper-Harvey-Kennedy) over normal edges."""
        rpo = self.rpo()
        idx = {b: i for i, b in enumerate(rpo)}
        idom = {rpo[0]: rpo[0]}
        pred = self.pred()
        changed = True
        while changed:
            changed = False
            for b in rpo[1:]:
                ps = [p for p in pred[b] if p in idom]
                if not ps:
                    continue
                new = ps[0]
                for p in ps[1:]:
                    a, c = p, new
                    while a != c:
                        while idx[a] > idx[c]:
                            a = idom[a]
                        while idx[c] > idx[a]:
                            c = idom[c]
                    new = a
                if idom.get(b) != new:
                    idom[b] = new
                    changed = True
        return idom

    def dominates(self, a, b, idom=None):
        idom = idom or self.dominators()
        if b not in idom:
            return False
        while True:
            if a == b:
                return True
            nb = idom[b]
            if nb == b:
                return False
            b = nb

    def loop_heads(self):
        """targets of back edges (edge a->h where h dominates a)."""
        idom = self.dominators()
        heads = set()
        for a, ss in self.succ().items():
            if a not in idom:
                continue
            for s in ss:
                if self.dominates(s, a, idom):
                    heads.add(s)
        return heads

    def natural_loop(self, head):
        idom = self.dominators()
        body = {head}
        pred = self.pred()
        for a, ss in self.succ().items():
            if a in idom and head in ss and self.dominates(head, a, idom):
                st = [a]
                while st:
                    n = st.pop()
                    if n in body:
                        continue
                    body.add(n)
                    st.extend(pred[n])
        return body


def _place_locals(p):
    out = [p['local']]
    for e in p['proj']:
        if e['p'] == 'index':
            out.append(e['local'])
    return out


def _op_uses(o, acc):
    if o['o'] in ('copy', 'move'):
        acc.update(_place_locals(o['place']))


def _rv_uses(rv, acc, borrowed):
    r = rv['r']
    if r in ('use', 'cast', 'repeat'):
        _op_uses(rv['op'], acc)
    elif r in ('ref', 'rawptr'):
        acc.update(_place_locals(rv['place']))
        borrowed.add(rv['place']['local']) if not any(e['p'] == 'deref' for e in rv['place']['proj']) else None
    elif r == 'binop':
        _op_uses(rv['a'], acc)
        _op_uses(rv['b'], acc)
    elif r == 'unop':
        _op_uses(rv['a'], acc)
    elif r in ('discriminant', 'copy_for_deref'):
        acc.update(_place_locals(rv['place']))
    elif r == 'aggregate':
        for o in rv['ops']:
            _op_uses(o, acc)


def liveness(body):
    """live-in sets of locals per block (backward may-analysis). Locals whose address is
    taken are treated as always live."""
    n = len(body.blocks)
    use = [set() for _ in range(n)]
    deff = [set() for _ in range(n)]
    borrowed = set()
    for b in body.blocks:
        i = b['i']
        u, d = use[i], deff[i]

        def see_uses(ls):
            for l in ls:
                if l not in d:
                    u.add(l)
        for st in b['stmts']:
            k = st['s']
            if k == 'assign':
                acc = set()
                _rv_uses(st['rv'], acc, borrowed)
                pl = st['place']
                if pl['proj']:
                    acc.update(_place_locals(pl))
                see_uses(acc)
                if not pl['proj']:
                    d.add(pl['local'])
            elif k == 'set_discriminant':
                see_uses(_place_locals(st['place']))
            elif k == 'assume':
                acc = set()
                _op_uses(st['op'], acc)
                see_uses(acc)
        t = b['term']
        k = t['t']
        acc = set()
        if k == 'switch':
            _op_uses(t['discr'], acc)
        elif k == 'assert':
            _op_uses(t['cond'], acc)
            m = t['msg']
            for key in ('len', 'index', 'a', 'b'):
                if isinstance(m.get(key), dict):
                    _op_uses(m[key], acc)
        elif k == 'drop':
            acc.update(_place_locals(t['place']))
        elif k == 'call':
            _op_uses(t['func'], acc)
            for a in t['args']:
                _op_uses(a, acc)
            if t['dest']['proj']:
                acc.update(_place_locals(t['dest']))
        elif k == 'return':
            acc.add(0)
        see_uses(acc)
        if k == 'call' and not t['dest']['proj']:
            d.add(t['dest']['local'])
    live_in = [set() for _ in range(n)]
    succ = {b['i']: body.term_targets(b['i']) for b in body.blocks}
    changed = True
    while changed:
        changed = False
        for i in range(n - 1, -1, -1):
            out = set()
            for s_ in succ[i]:
                out |= live_in[s_]
            new = use[i] | (out - deff[i])
            if new != live_in[i]:
                live_in[i] = new
                changed = True
    for i in range(n):
        live_in[i] |= borrowed
        live_in[i] |= set(range(1, body.arg_count + 1))
    return live_in


class Facts:
    def __init__(self, path):
        with open(path) as f:
            self.j = json.load(f)
        self.bodies = {}
        self.by_key = defaultdict(list)
        for b in self.j['bodies']:
            body = Body(b)
            self.bodies[body.name] = body
            self.by_key[body.key].append(body)
        # monomorphised MIR of the core/alloc functions the crate calls (inlined by the interpreter when no summary exists)
        self.ext = {}
        for b in self.j.get('ext_bodies', []):
            body = Body(b)
            body.ext = True
            m = re.search(r'~ (.*?)\)\), args', body.name)
            local = body.name.startswith('Instance { def: Item(DefId(0:')      # an in-crate function with const generics, monomorphised (see fn_ref in the driver)
            body.key = ('mono:' if local else 'ext:') + (re.sub(r'\[[0-9a-f]+\]', '', m.group(1)) if m else body.name)
            self.ext[body.name] = body
        self.adts = {a['name']: a for a in self.j['adts']}
        self.consts = {c['name']: c for c in self.j['consts']}
        self.items = self.j['items']
        self.census = self.j['census']

    def body(self, key):
        """lookup by generic-stripped path; unique or KeyError."""
        bs = self.by_key.get(key)
        if not bs:
            raise KeyError(key)
        if len(bs) > 1:
            raise KeyError(f"ambiguous {key}")
        return bs[0]

    def find(self, suffix):
        return [b for k, bs in self.by_key.items() for b in bs if k.endswith(suffix)]

    def non_derived(self):
        return [b for b in self.bodies.values() if not b.derived]

    def adt_field_name(self, adt, variant, idx):
        a = self.adts.get(adt)
        if not a:
            return str(idx)
        try:
            return a['variants'][variant]['fields'][idx]['name']
        except (IndexError, KeyError):
            return str(idx)

    def variant_name(self, adt, variant):
        a = self.adts.get(adt)
        if not a:
            return str(variant)
        try:
            return a['variants'][variant]['name']
        except IndexError:
            return str(variant)


# ------------------------------------------------------------------ pretty printer
def pp_place(body, p):
    s = body.lname(p['local'])
    for e in p['proj']:
        k = e['p']
        if k == 'deref':
            s = f"(*{s})"
        elif k == 'field':
            s = f"{s}.{e['i']}"
        elif k == 'index':
            s = f"{s}[{body.lname(e['local'])}]"
        elif k == 'constindex':
            s = f"{s}[{'-' if e['from_end'] else ''}{e['offset']} of {e['min_length']}]"
        elif k == 'subslice':
            s = f"{s}[{e['from']}..{'-' if e['from_end'] else ''}{e['to']}]"
        elif k == 'downcast':
            s = f"({s} as {e['name'] or e['v']})"
        else:
            s = f"{s}.<{k}>"
    return s


def pp_op(body, o):
    k = o['o']
    if k in ('copy', 'move'):
        return f"{k} {pp_place(body, o['place'])}"
    if k == 'const':
        if 'fn' in o:
            return f"fn {o['fn']['full']}"
        if 'int' in o:
            return f"const {o['int']}_{o['ty']['s']}"
        return f"const {o['s']}"
    return o.get('s', k)


def pp_rv(body, rv):
    r = rv['r']
    if r == 'use':
        return pp_op(body, rv['op'])
    if r == 'ref':
        return f"&{'mut ' if rv['mut'] else ''}{pp_place(body, rv['place'])}"
    if r == 'rawptr':
        return f"&raw {'mut ' if rv['mut'] else 'const '}{pp_place(body, rv['place'])}"
    if r == 'cast':
        return f"{pp_op(body, rv['op'])} as {rv['to']['s']} ({rv['kind']})"
    if r == 'binop':
        return f"{rv['op']}({pp_op(body, rv['a'])}, {pp_op(body, rv['b'])})"
    if r == 'unop':
        return f"{rv['op']}({pp_op(body, rv['a'])})"
    if r == 'discriminant':
        return f"discriminant({pp_place(body, rv['place'])})"
    if r == 'aggregate':
        ops = ', '.join(pp_op(body, o) for o in rv['ops'])
        kind = rv['kind']
        if kind == 'adt':
            return f"{rv['adt']}::{rv['variant_name']}{{{ops}}}"
        return f"{kind}({ops})"
    if r == 'copy_for_deref':
        return f"deref_copy {pp_place(body, rv['place'])}"
    if r == 'repeat':
        return f"[{pp_op(body, rv['op'])}; {rv['n']}]"
    return r


def pp_span(sp):
    return f"{sp['file']}:{sp['line']}"


def pp_body(body, out=None):
    lines = []
    lines.append(f"fn {body.name}  [{body.def_kind}] args={body.arg_count} @ {pp_span(body.span)}")
    for l in body.locals:
        lines.append(f"    let {body.lname(l['i'])}: {l['ty']['s']}")
    for b in body.blocks:
        lines.append(f"  bb{b['i']}{' (cleanup)' if b['cleanup'] else ''}:")
        for s in b['stmts']:
            k = s['s']
            if k == 'assign':
                lines.append(f"    {pp_place(body, s['place'])} = {pp_rv(body, s['rv'])}    // {s['span']['line']}")
            elif k == 'set_discriminant':
                lines.append(f"    discriminant({pp_place(body, s['place'])}) = {s['variant']}")
            elif k in ('storage_live', 'storage_dead'):
                pass
            else:
                lines.append(f"    {k}")
        t = b['term']
        k = t['t']
        if k == 'goto':
            ts = f"goto bb{t['target']}"
        elif k == 'switch':
            cs = ', '.join(f"{c[0]}: bb{c[1]}" for c in t['cases'])
            ts = f"switchInt({pp_op(body, t['discr'])}) [{cs}, otherwise: bb{t['otherwise']}]"
        elif k == 'call':
            args = ', '.join(pp_op(body, a) for a in t['args'])
            fn = t['func'].get('fn')
            fname = fn['full'] if fn else pp_op(body, t['func'])
            res = ''
            if fn and fn.get('resolved') and fn['resolved'] != fn['name']:
                res = f"  [=> {fn['resolved']}]"
            ts = f"{pp_place(body, t['dest'])} = {fname}({args}) -> bb{t['target']}{res}"
        elif k == 'assert':
            m = t['msg']
            ts = f"assert({'!' if not t['expected'] else ''}{pp_op(body, t['cond'])}, {m['kind']}) -> bb{t['target']}"
        elif k == 'drop':
            ts = f"drop({pp_place(body, t['place'])}) -> bb{t['target']}"
        else:
            ts = k
        if 'cleanup' in t:
            ts += f" unwind bb{t['cleanup']}"
        mac = ''
        if t['span'].get('exp'):
            mac = ' ' + ','.join(t['span'].get('macros', []))
        lines.append(f"    {ts}    // {t['span']['line']}{mac}")
    text = '\n'.join(lines)
    if out:
        out.write(text + '\n')
    return text


if __name__ == '__main__':
    import sys
    f = Facts(sys.argv[1])
    for pat in sys.argv[2:]:
        for b in f.find(pat):
            print(pp_body(b))
            print()
