import cProfile, pstats, sys, time
from mirlib import Facts
from absint import Interp
f = Facts('/tmp/facts.json')
b = f.find(sys.argv[1])[0]
I = Interp(f, {'kslots': int(sys.argv[2]) if len(sys.argv)>2 else 3})
t=time.time()
cProfile.run('rets = I.run_root(b)', '/tmp/prof.out')
print(time.time()-t, I.stats['blocks'], I.stats['joins'])
p = pstats.Stats('/tmp/prof.out'); p.sort_stats('cumulative').print_stats(28)
