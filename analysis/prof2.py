import cProfile, pstats, sys, time
from framework import *
ck=Check('X'); ck.load()
t=time.time()
cProfile.run("a=ck.analyse(DEC+'decap', decap_cfg(ck.facts))", '/tmp/prof.out')
print(time.time()-t, a.I.stats)
p = pstats.Stats('/tmp/prof.out'); p.sort_stats('cumulative').print_stats(30)
