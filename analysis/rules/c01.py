"""C01 — unfragmented round trip (structural agreement + guard equivalence + infeasible reject paths)."""
from framework import *
from rules import c03, c04, c06, c09, c11, c15, c18

DERR = 'gse_decap::DecapError'
DS = 'gse_decap::DecapStatus'
MD = 'gse_decap::DecapMetadata'
LT = 'label::LabelType'
ENV_ERRORS = {'ErrorMemory'}        # failures of the environment (memory trait), not of the packet


def reader_analysis(ck, tag='c01'):
    f = ck.facts

    def mark(kind):
        def hook(I, w, frame, site, key, args):
            w.mem[('G', 'kind')] = ('enum', ((kind, ()),))
            if kind in (0, 1):
                lt_arg = args[2]
                if lt_arg[0] == 'ref':
                    # the helper takes the label type by reference: the ghost is a copy of the referenced place and learns what
                    # later matches on that place establish (copy alias, see absint.refine_variant)
                    w.alias[(('G', 'lt'), ())] = lt_arg[1]
                    lt_arg = I.read(w, lt_arg[1])
                w.mem[('G', 'lt')] = lt_arg
        return hook

    def saw_ext(I, w, frame, site, key, args):
        w.mem[('G', 'ext')] = ('enum', ((1, ()),))

    def got_storage(I, w, frame, site, args, rv):
        w.mem[('G', 'storage')] = rv

    def after_take(I, w, frame, site, args, rv):
        w.mem[('G', 'taken')] = rv

    def after_crc(I, w, frame, site, args, rv):
        w.mem[('G', 'crc_val')] = rv
    cfg = decap_cfg(f, {'call_hooks': {DEC + 'decap_complete': mark(0), DEC + 'decap_first': mark(1), DEC + 'decap_intermediate': mark(2), DEC + 'decap_end': mark(3),
                                       walker_key(f): saw_ext},
                        'ret_hooks': {TRAIT_MEM + 'new_pdu': got_storage, TRAIT_MEM + 'new_frag': got_storage, TRAIT_MEM + 'take_frag': after_take,
                                      'crc::CrcCalculator::calculate_crc32': after_crc}})
    return ck.analyse(DEC + 'decap', cfg, tag=tag)


def storage_box(w):
    s = ghost(w, 'storage')
    if s is None or s[0] != 'enum':
        return None
    for v, fs in s[1]:
        if v == 0 and fs:
            x = fs[0]
            if x[0] == 'box':
                return x
            if x[0] == 'agg' and x[1][-1][0] == 'box':
                return x[1][-1]
    return None


def part_of(f, w):
    k, l = ghost(w, 'kind'), ghost(w, 'lt')
    if k is None:
        return None, None
    kind = k[1][0][0]
    if l is None or l[0] != 'enum' or len(l[1]) != 1:
        return kind, None
    return kind, f.variant_name(LT, l[1][0][0])


def be(buf, off, n):
    at = ATOMS.by_key.get(('be', buf[1], Lin.c(off), n))
    return Lin.atom(at) if at is not None else None


def bears_ext(d, W, kind):
    """does the packet of world W carry header extensions?  Decided by the packet itself - the first protocol-type field
    (bytes 2..4 of a complete packet, 5..7 of a first fragment) is below 0x600 - not by which helper the receiver happens to
    call: True / False when the store decides it, None otherwise; intermediate and end packets have no such field"""
    if kind not in (0, 1):
        return False
    pt = be(d.arg('buffer'), 2 if kind == 0 else 5, 2)
    if pt is None:
        return None
    if W.store.entails(le(Lin.c(0x600), pt)):
        return False
    if W.store.entails(lt(pt, Lin.c(0x600))):
        return True
    return None


def reader_complete_rules(ck, d, P):
    """reader side of the complete packet: windows, metadata, consumed length, reject paths"""
    f = ck.facts
    buf = d.arg('buffer')
    gse = c03.ghost_gse_len(d, None)
    if gse is None:
        raise Tooling('anchor lost: GSE length decoding in decap')
    pt = be(buf, 2, 2)
    mi = {n: field_index(f, MD, n) for n in ('pdu_len', 'protocol_type', 'label')}
    v_completed = variant_index(f, DS, 'CompletedPkt')
    # payload copy into storage
    ncopy = 0
    for r in d.events('write'):
        _, base, start, ln, src = r.data[:5]
        W = r.data[6]
        if kind_of(W) != 0:
            continue
        if src[0] != 'seq' or src[1].root != buf[1].root:
            continue
        kind, lt_ = part_of(f, W)
        if lt_ is None:
            ck.finding(f'{P}.R1', r.site[0], 'partition', 'decap_complete: label type unknown at the payload copy', r.site)
            continue
        if bears_ext(d, W, 0) is not False:
            continue        # extension-bearing packet: C13
        ncopy += 1
        L = LABEL_LEN[lt_]
        sb = storage_box(W)
        ck.obligations += 1
        good = (sb is not None and base.root == sb[1] and W.store.entails_eq(start, Lin.c(0)) and W.store.entails_eq(src[2], Lin.c(4 + L))
                and W.store.entails_eq(ln, gse - L - 2))
        if good:
            ck.discharged += 1
        else:
            ck.finding(f'{P}.R1', r.site[0], f"payload-window:{lt_}", f"decap_complete ({lt_} label, no extension): payload is not copied as storage[0..G-L-2) <- packet[4+L .. G+2)", r.site)
    ck.rule(f'{P}.R1 payload copies of decap_complete (no extension)', ncopy, 3)
    # returns
    nok = nerr = 0
    for w, rv in d.rets:
        kind, lt_ = part_of(f, w)
        if kind != 0 or lt_ is None:
            continue
        L = LABEL_LEN[lt_]
        for v, fs in (ret_alts(rv) or []):
            tup = fs[0]
            if v == 0:
                st = tup[1][0]
                if st[0] != 'enum':
                    continue
                for sv, sfs in st[1]:
                    if sv != v_completed:
                        ck.finding(f'{P}.R5', DEC + 'decap_complete', f"status:{sv}", 'a complete packet yields a status other than CompletedPkt')
                        continue
                    if bears_ext(d, w, 0) is not False:
                        continue
                    nok += 1
                    ck.obligations += 3
                    # R2 consumed = G + 2
                    if w.store.entails_eq(tup[1][1][1], gse + 2):
                        ck.discharged += 1
                    else:
                        ck.finding(f'{P}.R2', DEC + 'decap_complete', 'consumed', 'decap of a complete packet does not consume GSE length + 2')
                    bx, md = sfs[0], sfs[1]
                    sb = storage_box(w)
                    if sb is not None and bx[0] == 'box' and bx[1] == sb[1]:
                        ck.discharged += 1
                    else:
                        ck.finding(f'{P}.R5', DEC + 'decap_complete', 'delivered-box', 'decap_complete: the delivered buffer is not the one obtained from new_pdu')
                    okm = md[0] == 'agg' and md[1][mi['pdu_len']][0] == 'int' and w.store.entails_eq(md[1][mi['pdu_len']][1], gse - L - 2) \
                        and md[1][mi['protocol_type']][0] == 'int' and w.store.entails_eq(md[1][mi['protocol_type']][1], pt)
                    if okm and lt_ in ('SixBytesLabel', 'ThreeBytesLabel'):
                        okm = c04.label_from_packet(md[1][mi['label']], d, 0, lt_)
                    elif okm and lt_ == 'Broadcast':
                        lab = md[1][mi['label']]
                        okm = lab[0] == 'enum' and len(lab[1]) == 1 and f.variant_name('label::Label', lab[1][0][0]) == 'Broadcast'
                    if okm:
                        ck.discharged += 1
                    else:
                        ck.finding(f'{P}.R5', DEC + 'decap_complete', f"metadata:{lt_}", f"decap_complete ({lt_} label): delivered metadata are not (G-L-2, be16(packet[2..4)), label of the packet)")
                    ck.sample({'reader': 'complete', 'label type': lt_, 'pdu_len': (gse - L - 2).pretty(), 'consumed': 'G+2'})
            else:
                if lt_ == 'ReUse' or bears_ext(d, w, 0) is True:
                    continue
                names = [f.variant_name(DERR, x) for x, _ in tup[1][0][1]] if tup[1][0][0] == 'enum' else ['?']
                for nm in names:
                    nerr += 1
                    if nm in ENV_ERRORS:
                        continue
                    # R4: this reject path must be infeasible for a packet the encapsulator emits and a storage that can hold the PDU
                    ck.obligations += 1
                    post = [le(Lin.c(L + 2), gse), le(gse + 2, buf[3])]      # well-formed, and the receiver is given the whole packet
                    if pt is not None:
                        post.append(le(Lin.c(0x600), pt))
                    sb = storage_box(w)
                    if sb is not None:
                        post.append(le(gse - L - 2, d.I.seq_len(w, sb[1])))
                    zero_fact = zero_array_established(w)
                    if nm == 'ErrorInvalidLabel' and zero_fact:
                        ck.discharged += 1       # only for the zero label, which encap refuses to emit (C09.R4)
                        continue
                    if w.store.satisfiable_with(*post):
                        ck.finding(f'{P}.R4', DEC + 'decap_complete', f"spurious-reject:{lt_}:{nm}", f"decap of a well-formed complete packet ({lt_} label, no extension, storage >= PDU) can be rejected with {nm}")
                    else:
                        ck.discharged += 1
    ck.rule(f'{P}.R5 completed returns of complete packets (no extension)', nok, 3)
    ck.rule(f'{P}.R4 reject paths of complete packets examined', nerr, 6)


def writer_guard_rules(ck, P):
    """R3: encap reports a completed packet exactly when label-as-written, protocol type and PDU fit
    the 4095-byte GSE length and the buffer holds the packet"""
    f = ck.facts
    i_label = field_index(f, 'gse_encap::EncapMetadata', 'label')
    reuse = variant_index(f, 'label::Label', 'ReUse')

    def clru_ret(I, w, frame, site, args, rv):
        arg = args[1]
        single = rv[0] == 'enum' and len(rv[1]) == 1 and rv[1][0][0] == reuse
        arg_single = arg[0] == 'enum' and len(arg[1]) == 1 and arg[1][0][0] == reuse
        w.mem[('G', 'subst')] = ('enum', ((1 if (single and not arg_single) else 0, ()),))
    nret = nrej = 0
    for lv in f.adts['label::Label']['variants']:
        def fix_label(I, w, args, body, _v=lv['idx']):
            i = param_index(body, 'metadata')
            md = args[i - 1]
            lab = md[1][i_label]
            fl = list(md[1])
            fl[i_label] = ('enum', tuple((v, fs) for v, fs in lab[1] if v == _v))
            args[i - 1] = ('agg', tuple(fl))
        a = analyse_writer(ck, ENC + 'encap', tag=f"c01-{lv['name']}", extra={'ret_hooks': {clru_key(f): clru_ret}, 'kslots': 24}, premise=fix_label)
        B, Pn = a.arg('buffer')[3], a.arg('pdu')[3]
        for w, rv in a.rets:
            sub = ghost(w, 'subst')
            if sub is None:
                continue        # rejected before the label decision (zero label / protocol type): not a size question
            Lw = 0 if sub[1][0][0] == 1 else LABEL_LEN[lv['name']]
            fits = [le(Pn + 4 + Lw, B), le(Pn + 2 + Lw, Lin.c(4095))]
            oks, errs = c11.ok_parts(f, rv)
            part = hdr_partition(f, w)
            nret += 1
            ck.obligations += 1
            if oks and part and part[0] == 'CompletePkt':
                good = all(w.store.entails(c) for c in fits)
                what = 'a completed packet is reported outside "fits 4095 and the buffer"'
            else:
                good = not w.store.satisfiable_with(*fits)
                what = f"encap answers {'a first fragment' if oks else 'Err' + str(sorted(set(errs)))} although label as written ({Lw} bytes), protocol type and PDU fit 4095 bytes and the buffer can hold the packet"
            if good:
                ck.discharged += 1
            else:
                ck.finding(f'{P}.R3', ENC + 'encap', f"complete-guard:{lv['name']}:{Lw}:{'ok' if oks else 'err'}", f"encap ({lv['name']} label): {what}")
            # R7: a call is refused for its size only when the size is the reason: ErrorPduLength needs a total length above
            # 65535, ErrorSizeBuffer a buffer below the 13 bytes that always hold a first-fragment header (C02: "every PDU that
            # fits the 16-bit total length", "buffers of 13 bytes or more")
            E = set(errs)
            if E and not oks and E <= {'ErrorPduLength', 'ErrorSizeBuffer'}:
                nrej += 1
                ck.obligations += 1
                neg = []
                if 'ErrorPduLength' in E:
                    neg.append(le(Pn + 2 + Lw, Lin.c(65535)))
                if 'ErrorSizeBuffer' in E:
                    neg.append(le(Lin.c(13), B))
                if w.store.satisfiable_with(*neg):
                    ck.finding(f'{P}.R7', ENC + 'encap', f"spurious-size-reject:{lv['name']}:{Lw}:{'+'.join(sorted(E))}",
                               f"encap ({lv['name']} label, {Lw} label bytes written) can answer {' / '.join(sorted(E))} for a PDU whose total length fits 16 bits" + (' and a buffer of 13 bytes or more' if 'ErrorSizeBuffer' in E else ''))
                else:
                    ck.discharged += 1
    ck.rule(f'{P}.R3 returns of encap examined against the completeness guard', nret, 20)
    ck.rule(f'{P}.R7 size rejections of encap examined (ErrorPduLength / ErrorSizeBuffer)', nrej, 4)


def label_table_rules(ck, P):
    f = ck.facts
    n = 0
    for fn in ('label::Label::len', 'label::Label::get_type', 'label::Label::get_bytes'):
        for lv in f.adts['label::Label']['variants']:
            def fix(I, w, args, _v=lv['idx']):
                cur = I.read(w, args[0][1])
                I.write(w, args[0][1], ('enum', tuple((v, fs) for v, fs in cur[1] if v == _v)))
            a = ck.analyse(fn, {'kslots': 4}, assume=fix, tag=lv['name'])
            for w, rv in a.rets:
                n += 1
                ck.obligations += 1
                L = LABEL_LEN[lv['name']]
                if fn.endswith('::len'):
                    good = rv[0] == 'int' and w.store.entails_eq(rv[1], Lin.c(L))
                elif fn.endswith('get_type'):
                    good = rv[0] == 'enum' and len(rv[1]) == 1 and f.variant_name(LT, rv[1][0][0]) == lv['name']
                else:
                    good = rv[0] == 'slice' and w.store.entails_eq(rv[3], Lin.c(L)) and (L == 0 or rv[1].root == a.args[0][1].root)
                if good:
                    ck.discharged += 1
                else:
                    ck.finding(f'{P}.R6', fn, f"label-table:{lv['name']}", f"{fn} on {lv['name']} does not give {L} bytes / the same kind")
    for lv in f.adts[LT]['variants']:
        def fixt(I, w, args, _v=lv['idx']):
            I.write(w, args[0][1], ('enum', ((_v, ()),)))
        a = ck.analyse('label::LabelType::len', {'kslots': 4}, assume=fixt, tag=lv['name'])
        for w, rv in a.rets:
            n += 1
            ck.obligations += 1
            if rv[0] == 'int' and w.store.entails_eq(rv[1], Lin.c(LABEL_LEN[lv['name']])):
                ck.discharged += 1
            else:
                ck.finding(f'{P}.R6', 'label::LabelType::len', f"label-table:{lv['name']}", f"LabelType::len({lv['name']}) is not {LABEL_LEN[lv['name']]}")
        b = ck.analyse('label::Label::new', {'kslots': 4}, assume=fixt, tag=lv['name'])
        for w, rv in b.rets:
            n += 1
            ck.obligations += 1
            data = b.args[1]
            good = rv[0] == 'enum' and len(rv[1]) == 1 and f.variant_name('label::Label', rv[1][0][0]) == lv['name']
            if good and LABEL_LEN[lv['name']] > 0:
                arr = rv[1][0][1][0]
                good = arr[0] == 'arr' and arr[2][0] == 'bytes_of' and arr[2][1] == data[1] and arr[2][2] == data[2]
            if good:
                ck.discharged += 1
            else:
                ck.finding(f'{P}.R6', 'label::Label::new', f"label-new:{lv['name']}", f"Label::new({lv['name']}, bytes) does not build that kind from exactly those bytes")
    ck.rule(f'{P}.R6 label table rows (len / get_type / get_bytes / LabelType::len / new)', n, 20)


def run(ck):
    P = 'C01'
    c06.run(ck, writers=('encap',), pid_rules=f'{P}.R1w', floors=(8, 4, 20))
    d = reader_analysis(ck)
    reader_complete_rules(ck, d, P)
    writer_guard_rules(ck, P)
    label_table_rules(ck, P)
    # R7: the label of the round trip is the caller's label only if a re-use marker is written solely for the remembered label
    c15.substitution_guard(ck, f'{P}.R7')
    ck.assumptions += ['equality of payload contents is reduced to: the same window of the same object is copied by copy_from_slice on both sides (writer: C06 layout rows; reader: R1), plus the trusted summary of copy_from_slice',
                       'the header bits round-trip by C14 (codec bijection); label bytes round-trip by R6 (Label::get_bytes / Label::new)',
                       'extension-bearing complete packets are C13; for re-use substituted labels C01 decides only the substitution guard (R7), the resolution on the receiver side is C04']
    return ck.finish(
        level='other',
        explanation=('Structural agreement for the unfragmented round trip: (writer) encap writes header / protocol type / label / whole PDU at the ETSI '
                     'offsets, returns GSE length + 2 (rules of C06 restricted to encap); (reader) decap_complete copies packet[4+L .. G+2) to '
                     'storage[0 .. G-L-2), reports (G-L-2, be16(packet[2..4)), Label::new(type, packet[4..4+L))) with the buffer obtained from '
                     'new_pdu and consumes G+2; every other reject path is infeasible for G >= L+2, protocol type >= 0x600, non-zero label and '
                     'storage >= PDU; (guard) encap reports a completed packet exactly when label as written, protocol type and PDU fit 4095 bytes '
                     'and the buffer holds the packet, per label kind with and without re-use substitution; (tables) the four label kinds map to '
                     '6/3/0/0 bytes consistently in Label::{len,get_type,get_bytes,new} and LabelType::len.'),
        trusted=['analysis/stdsum.py', 'C14 for the 16-bit header'])
