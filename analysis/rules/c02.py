"""C02 — fragmented round trip for every PDU and buffer-size schedule (per-step summaries; the
induction over schedules is a paper argument)."""
from framework import *
from rules import c01, c03, c06, c09, c11, c12, c15

DERR = 'gse_decap::DecapError'
LT = 'label::LabelType'
ENV_ERRORS = {'ErrorMemory'}


def reader_fragment_rules(ck, d, P):
    f = ck.facts
    buf = d.arg('buffer')
    gse = c03.ghost_gse_len(d, None)
    ix = {n: field_index(f, CTX, n) for n in ('label', 'protocol_type', 'frag_id', 'total_len', 'pdu_len', 'from_label_reuse')}
    # ---- R1 first fragment: payload window and context fields (no extension)
    nfirst = 0
    for r in d.events('write'):
        _, base, start, ln, src = r.data[:5]
        W = r.data[6]
        if kind_of(W) != 1:
            continue
        if src[0] != 'seq' or src[1].root != buf[1].root or c01.bears_ext(d, W, 1) is not False:
            continue
        kind, lt_ = c01.part_of(f, W)
        if lt_ is None:
            continue
        L = LABEL_LEN[lt_]
        nfirst += 1
        sb = c01.storage_box(W)
        ck.obligations += 1
        if sb is not None and base.root == sb[1] and W.store.entails_eq(start, Lin.c(0)) and W.store.entails_eq(src[2], Lin.c(7 + L)) and W.store.entails_eq(ln, gse - L - 5):
            ck.discharged += 1
        else:
            ck.finding(f'{P}.R1', r.site[0], f"first-payload-window:{lt_}", f"decap_first ({lt_} label, no extension): payload is not copied as storage[0..G-L-5) <- packet[7+L .. G+2)", r.site)
    ck.rule(f'{P}.R1 payload copies of decap_first (no extension)', nfirst, 4)
    nnew = 0
    for r in d.events('call'):
        if r.data[2] != TRAIT_MEM + 'new_frag' or kind_of(r.data[5]) != 1:
            continue
        W = r.data[5]
        if c01.bears_ext(d, W, 1) is not False:
            continue
        kind, lt_ = c01.part_of(f, W)
        if lt_ is None:
            continue
        L = LABEL_LEN[lt_]
        ctx = r.data[3][1]
        nnew += 1
        ck.obligations += 1
        pt = c01.be(buf, 5, 2)
        good = ctx[0] == 'agg'
        if good:
            c = ctx[1]
            good = (c[ix['pdu_len']][0] == 'int' and W.store.entails_eq(c[ix['pdu_len']][1], gse - L - 5)
                    and pt is not None and c[ix['protocol_type']][0] == 'int' and W.store.entails_eq(c[ix['protocol_type']][1], pt))
            # R4: from_label_reuse is exactly "the label type of this packet is re-use"
            fr = c[ix['from_label_reuse']]
            if fr[0] == 'bool' and fr[1][0] == 'c':
                good = good and (fr[1][1] == (lt_ == 'ReUse'))
            else:
                dv = d.I.decide(W, fr[1]) if fr[0] == 'bool' else None
                good = good and dv is not None and dv == (lt_ == 'ReUse')
            if lt_ in ('SixBytesLabel', 'ThreeBytesLabel'):
                good = good and __import__('rules.c04', fromlist=['x']).label_from_packet(c[ix['label']], d, 1, lt_)
        if good:
            ck.discharged += 1
        else:
            ck.finding(f'{P}.R3', r.site[0], f"first-context:{lt_}", f"decap_first ({lt_} label): the context does not record (payload length G-L-5, be16(packet[5..7)), label at 7, from_label_reuse = (type is re-use))", r.site)
    ck.rule(f'{P}.R3 contexts created by decap_first (no extension)', nnew, 4)
    # ---- R6 reject paths of fragments, per step
    nerr = 0
    for w, rv in d.rets:
        kind, lt_ = c01.part_of(f, w)
        if kind not in (1, 2, 3) or c01.bears_ext(d, w, kind) is True:
            continue
        for v, fs in (ret_alts(rv) or []):
            if v != 1:
                continue
            tup = fs[0]
            names = [f.variant_name(DERR, x) for x, _ in tup[1][0][1]] if tup[1][0][0] == 'enum' else ['?']
            for nm in names:
                if kind == 1 and lt_ in (None, 'ReUse'):
                    continue
                nerr += 1
                if nm in ENV_ERRORS:
                    continue
                ck.obligations += 1
                post = [le(gse + 2, buf[3])]                          # the receiver is given the whole packet
                if kind == 1:
                    L = LABEL_LEN[lt_]
                    tl = c01.be(buf, 3, 2)
                    pt = c01.be(buf, 5, 2)
                    post += [le(Lin.c(L + 5), gse)]
                    if pt is not None:
                        post.append(le(Lin.c(0x600), pt))
                    if tl is not None:
                        post.append(lt(gse - L - 5, tl))          # a first fragment never carries the whole PDU: total_len = P+2+L > n
                    sb = c01.storage_box(w)
                    if sb is not None:
                        post.append(le(gse - L - 5, d.I.seq_len(w, sb[1])))
                    zero_fact = zero_array_established(w)
                    if nm == 'ErrorInvalidLabel' and zero_fact:
                        ck.discharged += 1
                        continue
                elif kind == 2:
                    post += [le(Lin.c(2), gse)]                   # >= 1 payload byte (C11.R1)
                    cb = c03.taken_ctx_box(w)
                    if cb is not None and cb[1][0] == 'box':
                        cx = cb[0][1]
                        post.append(le(cx[ix['pdu_len']][1] + gse - 1, d.I.seq_len(w, cb[1][1])))      # storage holds the PDU
                        post.append(le(cx[ix['pdu_len']][1] + gse - 1, Lin.c(65535)))
                else:
                    post += [le(Lin.c(5), gse)]
                    cb = c03.taken_ctx_box(w)
                    if cb is not None and cb[1][0] == 'box':
                        cx = cb[0][1]
                        post.append(le(cx[ix['pdu_len']][1] + gse - 5, d.I.seq_len(w, cb[1][1])))
                    if nm in ('ErrorTotalLength', 'ErrorCrc'):
                        ck.discharged += 1      # these two reject paths are exactly the verified comparisons; agreement of both sides' formulas is R4/R5
                        continue
                if w.store.satisfiable_with(*post):
                    ck.finding(f'{P}.R6', DEC + 'decap', f"spurious-reject:{kind}:{lt_}:{nm}", f"decap of a well-formed {['', 'first', 'intermediate', 'end'][kind]} fragment (storage large enough) can be rejected with {nm}")
                else:
                    ck.discharged += 1
    ck.rule(f'{P}.R6 reject paths of fragment packets examined', nerr, 8)
    # ---- R7 consumed = packet length on every Ok return of a fragment
    nok = 0
    for w, rv in d.rets:
        kind, lt_ = c01.part_of(f, w)
        if kind not in (1, 2, 3):
            continue
        for v, fs in (ret_alts(rv) or []):
            if v == 0:
                nok += 1
                ck.obligations += 1
                if w.store.entails_eq(fs[0][1][1][1], gse + 2):
                    ck.discharged += 1
                else:
                    ck.finding(f'{P}.R7', DEC + 'decap', f"consumed:{kind}", 'decap of a fragment does not consume GSE length + 2')
    ck.rule(f'{P}.R7 Ok returns of fragment packets', nok, 3)


def run(ck):
    P = 'C02'
    # writer side: layout of first / intermediate / end packets (C06 instances), bookkeeping (C11 instances), CRC arguments (C12.R5 instances)
    c06.run(ck, writers=('encap', 'encap_frag'), pid_rules=f'{P}.R1w', floors=(12, 6, 40))
    c11.rules(ck, P=f'{P}.R2')
    c12.crc_call_sites(ck, f'{P}.R5')
    # reader side: C03 instances (CRC arguments, total-length equality in full width, append position, saved context) + windows / contexts / reject paths
    c03.rules(ck, P=f'{P}.R3')
    d = c01.reader_analysis(ck, tag='c02')
    reader_fragment_rules(ck, d, P)
    # "every PDU that fits the 16-bit total length": encap refuses for its size only when the size is the reason (C01.R3/R7 instances)
    c01.writer_guard_rules(ck, f'{P}.R7')
    ck.assumptions += ['paper induction over schedules: by R2 (sender: context = bytes emitted, payload windows pdu[pos..pos+n)) and R3 (receiver: payload appended at context.pdu_len, saved context advanced by n) the invariant sender.pos = receiver.pdu_len and storage[0..pos) = pdu[0..pos) is preserved by every (packet produced, packet consumed) step; R4/R5 make the end checks pass (same total-length formula P+2+L with L = 0 after a re-use first fragment, same CRC arguments); C11 gives termination',
                       'payload contents are reduced to "same window of the same object copied by copy_from_slice"',
                       'interplay with storage exhaustion is a premise (sufficient storage)']
    return ck.finish(
        level='other',
        explanation=('Per-step agreement of the fragmentation protocol, by abstract interpretation of both sides: writer layout of first / intermediate '
                     '/ end packets against the ETSI table and sender bookkeeping (rules of C06 / C11 / C12.R5 instantiated here); reader: first '
                     'fragment copies packet[7+L..G+2) to storage[0..) and records (G-L-5, protocol type at 5, label at 7, from_label_reuse = type is '
                     're-use, total length at 3), intermediate / end fragments append at context.pdu_len, the end fragment passes the full-width '
                     'total-length equality and the CRC equality over the same four fields the sender used (rules of C03 instantiated here); every '
                     'other reject path of a fragment is infeasible for a well-formed fragment and sufficient storage; every Ok return consumes G+2.'),
        trusted=['analysis/stdsum.py', 'C14 (header codec)', 'paper induction over schedules'])
