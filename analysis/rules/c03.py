"""C03 — reassembly delivers only length- and CRC-verified PDUs."""
from framework import *
from rules import c15

CRC_TRAIT = 'crc::CrcCalculator::calculate_crc32'
DS = 'gse_decap::DecapStatus'
MD = 'gse_decap::DecapMetadata'


def kind_hooks():
    def mark(kind):
        def hook(I, w, frame, site, key, args):
            w.mem[('G', 'kind')] = ('enum', ((kind, ()),))
        return hook
    return {DEC + 'decap_complete': mark(0), DEC + 'decap_first': mark(1), DEC + 'decap_intermediate': mark(2), DEC + 'decap_end': mark(3)}


def decap_analysis(ck, tag='c03'):
    f = ck.facts

    def after_crc(I, w, frame, site, args, rv):
        w.mem[('G', 'crc_val')] = rv
        n = w.mem.get(('G', 'crc_calls'), ('int', Lin.c(0)))
        w.mem[('G', 'crc_calls')] = ('int', n[1] + 1)

    def after_take(I, w, frame, site, args, rv):
        w.mem[('G', 'taken')] = rv

    def on_save(I, w, frame, site, key, args):
        w.mem[('G', '~saved')] = ('enum', ((1, ()),))
    hooks = dict(kind_hooks())
    hooks[TRAIT_MEM + 'save_frag'] = on_save
    cfg = decap_cfg(f, {'call_hooks': hooks, 'ret_hooks': {CRC_TRAIT: after_crc, TRAIT_MEM + 'take_frag': after_take}})
    return ck.analyse(DEC + 'decap', cfg, tag=tag)


def taken_ctx_box(w):
    t = ghost(w, 'taken')
    if t is None or t[0] != 'enum':
        return None
    for v, fs in t[1]:
        if v == 0 and fs and fs[0][0] == 'agg':
            return fs[0][1]
    return None


def rules(ck, P='C03'):
    f = ck.facts
    ix = {n: field_index(f, CTX, n) for n in ('label', 'protocol_type', 'frag_id', 'total_len', 'pdu_len', 'from_label_reuse', 'extensions_header')}
    v_completed = variant_index(f, DS, 'CompletedPkt')
    # ---- R1: a completed PDU is only ever delivered for a complete packet or an end fragment.  All construction sites of
    # DecapStatus::CompletedPkt must lie in functions that decap reaches (so that the return-world rules below see them), and
    # every return of decap carrying CompletedPkt happens in a world whose decoded packet kind is complete or end.
    sites = {}
    for b in f.non_derived():
        if b.def_kind.startswith('Ctor'):
            continue          # the constructor function itself; its uses are the calls counted below
        for blk in b.blocks:
            for st in blk['stmts']:
                if st['s'] == 'assign' and st['rv']['r'] == 'aggregate' and st['rv'].get('adt') == DS and st['rv'].get('variant') == v_completed:
                    sites.setdefault(b.key, 0)
                    sites[b.key] += 1
            t_ = blk['term']
            if t_['t'] == 'call':
                for o_ in [t_['func']] + list(t_['args']):
                    fj = o_.get('fn') if isinstance(o_, dict) else None
                    if fj and (fj.get('resolved') or fj['name']) == DS + '::CompletedPkt':
                        sites.setdefault(b.key, 0)          # constructor called / passed as a function value
                        sites[b.key] += 1
    ck.rule(f'{P}.R1 construction sites of DecapStatus::CompletedPkt', sum(sites.values()), 2)
    a = decap_analysis(ck)
    reached = a.I.stats['functions']
    for k in sites:
        if k not in reached:
            ck.finding(f'{P}.R1', k, 'constructs-completed', f"{short(k)} constructs DecapStatus::CompletedPkt outside the paths of decap that the length / CRC rules cover")
    for w, rv in a.rets:
        for v, fs in (ret_alts(rv) or []):
            if v != 0:
                continue
            st = fs[0][1][0]
            if st[0] == 'enum' and any(x == v_completed for x, _ in st[1]):
                k = ghost(w, 'kind')
                if k is None or k[0] != 'enum' or not set(x for x, _ in k[1]) <= {0, 3}:
                    ck.finding(f'{P}.R1', DEC + 'decap', 'completed-for-fragment', 'decap can deliver a completed PDU for a packet that is neither a complete packet nor an end fragment')
    buf = a.arg('buffer')
    # ---- R3: arguments of the CRC recomputation (decap_end), evaluated at the call
    ncrc = 0
    for r in a.events('call'):
        if r.data[2] != CRC_TRAIT or kind_of(r.data[5]) != 3:
            continue
        ncrc += 1
        args, W = r.data[3], r.data[5]
        pdu, pt, tl, lab = args[1], args[2], args[3], args[4]
        cb = taken_ctx_box(W)
        if cb is None or cb[0][0] != 'agg' or cb[1][0] != 'box':
            ck.finding(f'{P}.R3', r.site[0], 'no-taken-context', 'decap_end: CRC computed without a context taken from the memory', r.site)
            continue
        ctx, box = cb[0][1], cb[1]
        gse = ghost_gse_len(a, W)
        n = gse - 5 if gse is not None else None
        ck.obligations += 5
        if pdu[0] == 'slice' and pdu[1].root == box[1] and W.store.entails_eq(pdu[2], Lin.c(0)) and n is not None and W.store.entails_eq(pdu[3], ctx[ix['pdu_len']][1] + n):
            ck.discharged += 1
        else:
            ck.finding(f'{P}.R3', r.site[0], 'crc-pdu-window', 'decap_end: the CRC is not computed over storage[0 .. context.pdu_len + payload of this packet)', r.site)
        if veq(W, pt, ctx[ix['protocol_type']]):
            ck.discharged += 1
        else:
            ck.finding(f'{P}.R3', r.site[0], 'crc-ptype', "decap_end: CRC protocol type is not the first fragment's", r.site)
        if veq(W, tl, ctx[ix['total_len']]):
            ck.discharged += 1
        else:
            ck.finding(f'{P}.R3', r.site[0], 'crc-total-length', "decap_end: CRC total length is not the first fragment's", r.site)
        # R2a: the total-length comparison has been passed, in full width
        if lab[0] == 'slice' and W.store.entails_eq(ctx[ix['total_len']][1], pdu[3] + 2 + lab[3]):
            ck.discharged += 1
        else:
            ck.finding(f'{P}.R2', r.site[0], 'total-length-not-verified', 'decap_end: the CRC (and the delivery behind it) is reached without total_len == received length + 2 + label length having been established', r.site)
        # label bytes: the context label, or nothing after a re-use first fragment
        reuse = W.facts.get(ctx[ix['from_label_reuse']][1][1]) if ctx[ix['from_label_reuse']][0] == 'bool' and ctx[ix['from_label_reuse']][1][0] == 'opq' else None
        okl = False
        if lab[0] == 'slice':
            if reuse is True:
                okl = W.store.entails_eq(lab[3], Lin.c(0))
            elif reuse is False:
                okl = label_is_ctx_label(a, W, lab, ctx, ix, f)
        if okl:
            ck.discharged += 1
        else:
            ck.finding(f'{P}.R3', r.site[0], f"crc-label:{reuse}", f"decap_end: CRC label argument is not {'empty' if reuse else 'the bytes of the context label'} (from_label_reuse={reuse})", r.site)
        ck.sample({'crc call': site_str(r.site), 'from_label_reuse': reuse, 'label_len': lab[3].pretty() if lab[0] == 'slice' else '?', 'pdu_window': f"[0, {pdu[3].pretty()})" if pdu[0] == 'slice' else '?'})
    ck.rule(f'{P}.R3 CRC recomputation call sites (per partition)', ncrc, 3)
    # ---- R2b / R4: completed returns of end packets
    nend = 0
    for w, rv in a.rets:
        k = ghost(w, 'kind')
        if k is None or k[1][0][0] != 3:
            continue
        for v, fs in (ret_alts(rv) or []):
            if v != 0:
                continue
            st = fs[0][1][0]
            if st[0] != 'enum':
                continue
            for sv, sfs in st[1]:
                if sv != v_completed:
                    ck.finding(f'{P}.R2', DEC + 'decap_end', f"end-status:{sv}", 'an end packet yields a status other than CompletedPkt')
                    continue
                nend += 1
                ck.obligations += 3
                cv = ghost(w, 'crc_val')
                cc = ghost(w, 'crc_calls')
                gse = ghost_gse_len(a, w)
                recv = be_atom(buf, gse - 2 if gse is not None else None, 4)
                if cv is not None and cv[0] == 'int' and cc is not None and w.store.entails_eq(cc[1], Lin.c(1)) and recv is not None and w.store.entails_eq(cv[1], recv):
                    ck.discharged += 1
                else:
                    ck.finding(f'{P}.R2', DEC + 'decap_end', 'crc-not-verified', 'decap_end: a completed PDU is delivered without computed CRC == big-endian trailer (last four bytes of the packet) having been established')
                cb = taken_ctx_box(w)
                bx, md = sfs[0], sfs[1]
                if cb is not None and bx[0] == 'box' and cb[1][0] == 'box' and bx[1] == cb[1][1]:
                    ck.discharged += 1
                else:
                    ck.finding(f'{P}.R4', DEC + 'decap_end', 'delivered-box', 'decap_end: the delivered buffer is not the storage taken for this fragment id')
                okm = False
                if cb is not None and md[0] == 'agg' and gse is not None:
                    ctx = cb[0][1]
                    mi = {n: field_index(f, MD, n) for n in ('pdu_len', 'protocol_type', 'label')}
                    okm = (md[1][mi['pdu_len']][0] == 'int' and w.store.entails_eq(md[1][mi['pdu_len']][1], ctx[ix['pdu_len']][1] + gse - 5)
                           and veq(w, md[1][mi['protocol_type']], ctx[ix['protocol_type']]) and same_or_refined(ctx[ix['label']], md[1][mi['label']], w))
                if okm:
                    ck.discharged += 1
                else:
                    ck.finding(f'{P}.R4', DEC + 'decap_end', 'delivered-metadata', "decap_end: delivered metadata are not (context.pdu_len + payload, first fragment's protocol type and label)")
    ck.rule(f'{P}.R2 completed returns of end packets', nend, 1)
    # ---- R5/R3b: where payload bytes go (arrival-order concatenation) and lossless bookkeeping
    nw = 0
    for r in a.events('write'):
        _, base, start, ln, src = r.data[:5]
        W = r.data[6]
        if kind_of(W) is None:
            continue
        fn = KIND_FN[kind_of(W)]
        if src[0] != 'seq' or src[1].root != buf[1].root:
            continue
        nw += 1
        ck.obligations += 1
        cb = taken_ctx_box(W)
        if fn in ('decap_intermediate', 'decap_end'):
            good = cb is not None and cb[1][0] == 'box' and base.root == cb[1][1] and W.store.entails_eq(start, cb[0][1][ix['pdu_len']][1]) and W.store.entails_eq(src[2], Lin.c(3))
            what = 'storage[context.pdu_len ..] <- packet[3 ..]'
        else:
            good = W.store.entails_eq(start, Lin.c(0))
            what = 'storage[0 ..] <- payload'
        if good:
            ck.discharged += 1
        else:
            ck.finding(f'{P}.R5', r.site[0], f"append-position:{fn}", f"{fn}: payload is not appended as {what}", r.site)
    ck.rule(f'{P}.R5 payload copies into storage', nw, 4)
    for r in a.events('lossy_cast'):
        if len(r.data) > 4 and kind_of(r.data[4]) in (1, 2, 3):
            ck.finding(f'{P}.R5', r.site[0], f"lossy-cast:{short(r.site[0])}:{r.data[1].pretty()}", f"{short(r.site[0])}: the length bookkeeping goes through a lossy cast of {r.data[1].pretty()} to {r.data[2]}", r.site)
    # ---- R5c: the context saved by decap_intermediate advances pdu_len by exactly the payload
    nsave = 0
    for r in a.events('call'):
        if r.data[2] != TRAIT_MEM + 'save_frag' or kind_of(r.data[5]) != 2:
            continue
        nsave += 1
        W = r.data[5]
        mc = r.data[3][1]
        cb = taken_ctx_box(W)
        gse = ghost_gse_len(a, W)
        ck.obligations += 1
        ok = False
        if cb is not None and mc[0] == 'agg' and mc[1][0][0] == 'agg' and mc[1][1][0] == 'box' and gse is not None:
            new, old = mc[1][0][1], cb[0][1]
            ok = (mc[1][1][1] == cb[1][1] and new[ix['pdu_len']][0] == 'int' and not has_trunc(new[ix['pdu_len']][1])
                  and W.store.entails_eq(new[ix['pdu_len']][1], old[ix['pdu_len']][1] + gse - 1)
                  and all(veq(W, new[ix[n]], old[ix[n]]) for n in ('label', 'protocol_type', 'frag_id', 'total_len', 'from_label_reuse', 'extensions_header')))
        if ok:
            ck.discharged += 1
        else:
            ck.finding(f'{P}.R5', r.site[0], 'saved-context', 'decap_intermediate: the context saved is not the taken one with pdu_len advanced by exactly the payload of this packet', r.site)
    ck.rule(f'{P}.R5 save_frag calls of decap_intermediate', nsave, 1)
    # ---- R8: a fragment that is refused closes the train ("all later fragments with that id" includes the refused one): the
    # context taken for an end packet is never stored again, and the context taken for an intermediate packet is stored again
    # only on the path that accepts the packet
    nclosed = 0
    for w, rv in a.rets:
        kind = kind_of(w)
        if kind not in (2, 3) or taken_ctx_box(w) is None:
            continue
        saved = ghost(w, '~saved') is not None
        for v, fs in (ret_alts(rv) or []):
            nclosed += 1
            ck.obligations += 1
            names = []
            if v == 1 and fs[0][0] == 'agg' and fs[0][1][0][0] == 'enum':
                names = [f.variant_name('gse_decap::DecapError', x) for x, _ in fs[0][1][0][1]]
            if saved and (kind == 3 or (v == 1 and names != ['ErrorMemory'])):
                ck.finding(f'{P}.R8', DEC + 'decap', f"train-not-closed:{kind}:{v}:{','.join(names)}",
                           f"{'an end' if kind == 3 else 'a refused intermediate'} packet ({'Ok' if v == 0 else 'Err ' + '/'.join(names)}) puts the context it took back into the memory: fragments that arrive later are appended to a train that should have been closed")
            else:
                ck.discharged += 1
    ck.rule(f'{P}.R8 returns of intermediate / end packets after take_frag (train closed unless the packet is accepted)', nclosed, 6)
    # ---- R7: the context created by a first fragment comes from this packet only
    nnew = 0
    for r in a.events('call'):
        if r.data[2] != TRAIT_MEM + 'new_frag' or kind_of(r.data[5]) != 1:
            continue
        nnew += 1
        W = r.data[5]
        ctx = r.data[3][1]
        ck.obligations += 1
        ok = False
        if ctx[0] == 'agg':
            c = ctx[1]
            tl = be_atom(buf, Lin.c(3), 2)
            # the fragment id is byte 2 of the packet: read as a one-byte big-endian word or by plain indexing
            fids = [x for x in (be_atom(buf, Lin.c(2), 1), byte_cell(W, buf, 2)) if x is not None]
            ok = (c[ix['total_len']][0] == 'int' and tl is not None and c[ix['total_len']][1] == tl
                  and c[ix['frag_id']][0] == 'int' and c[ix['frag_id']][1] in fids
                  and c[ix['pdu_len']][0] == 'int' and not has_trunc(c[ix['pdu_len']][1]))
        if ok:
            ck.discharged += 1
        else:
            ck.finding(f'{P}.R7', r.site[0], 'new-context', 'decap_first: the new context does not take total length / fragment id / received length from this packet', r.site)
    ck.rule(f'{P}.R7 new_frag calls of decap_first', nnew, 1)
    # ---- R6: the bundled memory returns the context stored under the requested id
    inv = mem_invariant(f)
    tk = ck.analyse(MEM + 'take_frag', {'kslots': 8}, assume=inv)
    nt = 0
    for w, rv in tk.rets:
        for v, fs in (ret_alts(rv) or []):
            if v == 0:
                nt += 1
                ctxv = fs[0][1][0]
                ck.obligations += 1
                if ctxv[0] == 'agg' and ctxv[1][ix['frag_id']][0] == 'int' and w.store.entails_eq(ctxv[1][ix['frag_id']][1], tk.arg('frag_id')[1]):
                    ck.discharged += 1
                else:
                    ck.finding(f'{P}.R6', MEM + 'take_frag', 'id-not-compared', 'SimpleGseMemory::take_frag can return a context whose frag_id was not shown equal to the requested id')
    ck.rule(f'{P}.R6 Ok returns of SimpleGseMemory::take_frag', nt, 1)
    return None


def run(ck):
    rules(ck)
    ck.assumptions += ['error-detection strength of CRC-32 (bursts <= 32 bits) is a theorem about the polynomial pinned down by C12, not decided here',
                       'the quantifier over fault sequences is covered through: whatever arrives, a delivery passes both comparisons over the bytes actually stored (R2, R3, R5)',
                       'user GseDecapMemory obeys its contract (take_frag returns what save_frag/new_frag stored under that id)']
    return ck.finish(
        level='other',
        explanation=('Must-pass-through and provenance rules on the abstract interpretation of decap: DecapStatus::CompletedPkt is constructed only in '
                     'decap_complete and decap_end; at the CRC recomputation of decap_end the constraint store already contains total_len == received '
                     'length + 2 + label length (full width) and the arguments are (storage[0..received), context protocol type, context total length, '
                     'context label bytes or nothing after a re-use first fragment); at every completed return of an end packet the store contains '
                     'computed CRC == be32(last four bytes of the packet); delivered buffer/metadata are the taken storage and context; payloads are '
                     'appended at context.pdu_len and the saved context advances by exactly the payload, without lossy casts.'),
        trusted=['analysis/stdsum.py', 'contract of the memory trait'])


def ghost_gse_len(a, W):
    """gse_len as decap computed it: pkt_len - 2, recovered from the header word of the buffer"""
    key = ('be', a.arg('buffer')[1], Lin.c(0), 2)
    at = ATOMS.by_key.get(key)
    if at is None:
        return None
    bk = ('bits', Lin.atom(at), 0, 12)
    q = ATOMS.by_key.get(bk + ('q',))
    return Lin.atom(q) if q is not None else None


def be_atom(buf, start, n):
    if start is None:
        return None
    key = ('be', buf[1], start, n)
    at = ATOMS.by_key.get(key)
    if at is not None:
        return Lin.atom(at)
    if n == 1:
        # single byte read through indexing
        return None
    return None


def byte_cell(W, buf, k):
    """the value read from buf[k] by plain indexing in world W (None when that cell was never read or the buffer was written)"""
    root = buf[1].root
    v = W.mem.get(root)
    if v is None or v[0] != 'seq' or root in W.written or buf[1].path:
        return None
    for cidx, cval in v[3]:
        if cidx == Lin.c(k) and cval[0] == 'int':
            return cval[1]
    return None


def veq(w, a, b):
    if a == b:
        return True
    if a[0] == 'int' and b[0] == 'int':
        return w.store.entails_eq(a[1], b[1])
    return same_or_refined(b, a, w) or same_or_refined(a, b, w)


def label_is_ctx_label(a, W, lab, ctx, ix, f):
    """the slice `lab` is exactly the bytes of the label of the taken context: find the local that
    holds the (refined) context in W, take the variant of its label, and compare length and base"""
    holder = None
    for root, v in W.mem.items():
        if root[0] == 'L' and v[0] == 'agg' and len(v[1]) == len(ctx) and v[1][ix['total_len']] == ctx[ix['total_len']] and v[1][ix['frag_id']] == ctx[ix['frag_id']]:
            holder = (root, v)
    if holder is None:
        return False
    root, v = holder
    lv = v[1][ix['label']]
    if lv[0] != 'enum' or len(lv[1]) != 1:
        return False
    name = f.variant_name('label::Label', lv[1][0][0])
    L = LABEL_LEN[name]
    if not W.store.entails_eq(lab[3], Lin.c(L)):
        return False
    if L == 0:
        return True
    base = lab[1]
    if not W.store.entails_eq(lab[2], Lin.c(0)):
        return False
    if base.root == root:
        return True
    # the bytes of a copy of the label (`Label` is Copy: a helper enum holding it, a by-value argument): the payload array of
    # the copy is the very value of the context's - unknown bytes carry the identity of the object they were read from
    try:
        arrv = a.I.read(W.fork(), base)
    except Exception:
        return False
    return bool(lv[1][0][1]) and arrv == lv[1][0][1][0] and arrv[0] == 'arr' and arrv[2][0] in ('unknown', 'bytes_of')
