"""C04 — label re-use never attributes a PDU to a label the sender did not intend."""
from framework import *
from rules import c09, c15

DECAPS = 'gse_decap::Decapsulator'
LT = 'label::LabelType'


def run(ck):
    f = ck.facts
    c = c15.Cells(f)
    # ---------------- sender
    i_label = field_index(f, 'gse_encap::EncapMetadata', 'label')
    n_ok = n_err = n_hdr = 0
    for wname in ('encap', 'encap_ext'):
        def store_hook(I, w, frame, site, loc, v, _w=wname):
            if frame.body.key == ENC + _w and loc.path and loc.path[0] in (('f', c.i_last), ('f', c.i_cur)):
                w.mem[('G', 'self_written_outside')] = ('enum', ((1, ()),))

        def on_clru(I, w, frame, site, key, args):
            n = w.mem.get(('G', 'clru_calls'), ('int', Lin.c(0)))
            w.mem[('G', 'clru_calls')] = ('int', n[1] + 1)
            w.mem.pop(('G', 'self_written_outside'), None)
        extra = dict(c09.ENCCFG)
        extra['store_hook'] = store_hook
        extra['call_hooks'] = {clru_key(f): on_clru}

        def clru_ret(I, w, frame, site, args, rv):
            w.mem[('G', '~decided')] = rv       # the label check_label_re_use decided to send
        extra['ret_hooks'] = {clru_key(f): clru_ret}


        def decided(W):
            """the label check_label_re_use returned, narrowed to the kind announced in the header (the returned value is a copy:
            later matches refine the local it was stored in, not the copy; the label type handed to generate_gse_header is
            checked against it by the header rule below and identifies the kind in this world)"""
            d = ghost(W, '~decided')
            lt_ = ghost(W, 'hdr_lt')
            if d is not None and d[0] == 'enum' and lt_ is not None and lt_[0] == 'enum' and len(lt_[1]) == 1:
                nm = f.variant_name(LT, lt_[1][0][0])
                keep = tuple((v, fs) for v, fs in d[1] if f.variant_name('label::Label', v) == nm)
                if keep:
                    return ('enum', keep)
            return d
        a = analyse_writer(ck, ENC + wname, tag='c04', extra=extra)
        init = c09.self_fields(a, a.w0)
        last0 = init[1][c.i_last]
        act0 = init[1][c.i_act]
        label0 = a.arg('metadata')[1][i_label]
        md_contents = {fs[0][2] for _, fs in label0[1] if fs and fs[0][0] == 'arr'} if label0[0] == 'enum' else set()

        def payloads(d):
            """contents of the byte arrays the decided label may carry (None stands for a label without bytes).  The ghost is
            the value check_label_re_use returned; later matches refine the local, not the ghost, so it may list several kinds"""
            return {(fs[0][2] if fs and fs[0][0] == 'arr' else None) for _, fs in d[1]}
        for w, rv in a.rets:
            alts = ret_alts(rv) or []
            fin = c09.self_fields(a, w)
            lastF = fin[1][c.i_last]
            if any(v == 1 for v, _ in alts):
                # R1: a failed call leaves the sender's label memory alone
                n_err += 1
                if not same_or_refined(init, fin, w):
                    ck.finding('C04.R1', ENC + wname, f"state-changed-then-Err:{c09.changed_fields(f, init, fin, w)}",
                               f"{wname}: a failed call changes {c09.changed_fields(f, init, fin, w)}: the sender now believes the receiver remembers a label it never saw")
            if any(v == 0 for v, _ in alts):
                n_ok += 1
                # R2b: on successful paths the label memory is what check_label_re_use left
                if ghost(w, 'self_written_outside') is not None:
                    ck.finding('C04.R2', ENC + wname, 'ok-path-rewrites-memory', f"{wname}: a successful path writes last_label / the counter outside check_label_re_use (the mirror rule is only established for check_label_re_use)")
                hc = ghost(w, 'clru_calls')
                if hc is None or not w.store.entails_eq(hc[1], Lin.c(1)):
                    ck.finding('C04.R2', ENC + wname, 'ok-path-without-clru', f"{wname}: a successful path does not call check_label_re_use exactly once")
        # R4: what is written is what was decided
        for r in a.events('call'):
            if r.data[1] != GEN_HDR:
                continue
            n_hdr += 1
            W = r.data[5]
            cargs = r.data[3]
            ltv = a.I.read(W, cargs[1][1]) if cargs[1][0] == 'ref' else None
            lab = ghost(W, '~decided')
            if ltv is None or lab is None or ltv[0] != 'enum' or lab[0] != 'enum' or len(ltv[1]) != 1:
                ck.finding('C04.R4', ENC + wname, 'decided-label-unknown', f"{wname}: label / label type at the header call not known", r.site)
                continue
            if f.variant_name(LT, ltv[1][0][0]) not in {f.variant_name('label::Label', v) for v, _ in lab[1]}:
                ck.finding('C04.R4', ENC + wname, 'header-type-mismatch', f"{wname}: label type bits are not the type of the label returned by check_label_re_use", r.site)
        nlabw = 0
        for r in a.events('write'):
            _, base, start, ln, src = r.data[:5]
            if src[0] != 'arr' or len(src) < 5:
                continue
            if src[1] not in md_contents:
                continue                   # not label bytes
            nlabw += 1
            D = decided(r.data[6])
            if D is None or D[0] != 'enum' or src[1] not in payloads(D) or not r.data[6].store.entails_eq(src[2], Lin.c(0)):
                ck.finding('C04.R4', ENC + wname, 'writes-undecided-label', f"{wname}: writes label bytes that are not the bytes of the label returned by check_label_re_use", r.site)
        ck.rule(f'C04.R4 label byte writes taken from the decided label in {wname}', nlabw, 1)
        # the CRC label argument is the decided label too
        for r in a.events('call'):
            if r.data[2] != 'crc::CrcCalculator::calculate_crc32':
                continue
            lab_arg = r.data[3][4]
            W = r.data[5]
            D = decided(W)
            ok = False
            if lab_arg[0] == 'slice' and D is not None and D[0] == 'enum':
                want = payloads(D)
                if lab_arg[1].root[0] == 'K':
                    # the empty constant get_bytes returns for ReUse / Broadcast
                    ok = None in want and W.store.entails_eq(lab_arg[3], Lin.c(0))
                else:
                    try:
                        obj = a.I.read(W, lab_arg[1])
                    except AnalysisError:
                        obj = None
                    ok = obj is not None and obj[0] == 'arr' and obj[2] in want and \
                        W.store.entails_eq(lab_arg[2], Lin.c(0)) and W.store.entails_eq(lab_arg[3], Lin.c(obj[1]))
            if not ok:
                ck.finding('C04.R4', ENC + wname, 'crc-label-undecided', f"{wname}: CRC label argument is not the bytes of the decided label", r.site)
    ck.rule('C04.R1 Err returns of encap/encap_ext', n_err, 6)
    ck.rule('C04.R2 Ok returns of encap/encap_ext (memory untouched after check_label_re_use)', n_ok, 8)
    ck.rule('C04.R4 header calls of encap/encap_ext', n_hdr, 8)

    # R2a: mirror rule on the path summaries of check_label_re_use
    cl = c15.analyse_clru(ck)
    cinit = cl.I.read(cl.w0, cl.args[0][1])
    clast0 = cinit[1][c.i_last]
    cact = cinit[1][c.i_act]
    n2a = 0
    for w, rv in cl.rets:
        n2a += 1
        fin = cl.I.read(w, cl.args[0][1])
        lastF = fin[1][c.i_last]
        activated = w.facts.get(cact[1][1])
        variants = set(x for x, _ in rv[1]) if rv[0] == 'enum' else set()
        unchanged = same_or_refined(clast0, lastF, w)
        none = c15.is_none(lastF)
        some_ret = c15.is_some_of(lastF, lambda p: same_or_refined(p, rv, w) or same_or_refined(rv, p, w))
        ck.obligations += 1
        if activated is False:
            ok, want = unchanged, 'unchanged (re-use disabled: the memory is None by the setter rule C15.R5)'
        elif variants and variants <= {c.v6, c.v3}:
            ok, want = none or some_ret, 'None or Some(<the label returned>)'
        elif variants == {c.vb}:
            ok, want = none, 'None'
        elif variants == {c.vr}:
            ok, want = unchanged or none, 'unchanged or None'
        else:
            ok, want = False, 'decidable (returned label of several kinds on one path)'
        names = sorted(f.variant_name('label::Label', x) for x in variants)
        ck.sample({'check_label_re_use returns': names, 're_use_activated': activated,
                   'last_label_after': 'None' if none else ('Some(label returned)' if some_ret else ('unchanged' if unchanged else 'OTHER'))})
        if ok:
            ck.discharged += 1
        else:
            ck.finding('C04.R2', ENC + 'check_label_re_use', f"mirror:{names}:{activated}",
                       f"check_label_re_use returning {names} (re-use activated={activated}) leaves last_label not {want}: sender and receiver memories diverge")
    ck.rule('C04.R2 path summaries of check_label_re_use (sender mirror rule)', n2a, 6)
    # ---------------- receiver
    i_dlast = field_index(f, DECAPS, 'last_label')

    def mark(kind):
        def hook(I, w, frame, site, key, args):
            w.mem[('G', 'kind')] = ('enum', ((kind, ()),))
            if kind in (0, 1):
                lt_arg = args[2]
                if lt_arg[0] == 'ref':
                    # the helper takes the label type by reference: the ghost is a copy of the referenced place and learns what
                    # later matches on that place establish (copy alias, see absint.refine_variant)
                    w.alias[(('G', 'lt'), ())] = lt_arg[1]
                    lt_arg = I.read(w, lt_arg[1])
                w.mem[('G', 'lt')] = lt_arg
        return hook
    cfg = decap_cfg(f, {'call_hooks': {DEC + 'decap_complete': mark(0), DEC + 'decap_first': mark(1),
                                       DEC + 'decap_intermediate': mark(2), DEC + 'decap_end': mark(3)}})
    d = ck.analyse(DEC + 'decap', cfg, tag='c04')
    dinit = d.I.read(d.w0, d.args[0][1])
    dlast0 = dinit[1][i_dlast]
    nret = 0
    for w, rv in d.rets:
        kind = ghost(w, 'kind')
        fin = d.I.read(w, d.args[0][1])
        lastF = fin[1][i_dlast]
        alts = ret_alts(rv) or []
        unchanged = same_or_refined(dlast0, lastF, w)
        none = c15.is_none(lastF)
        if kind is None:
            # frame level exits (buffer too small, padding): memory cleared
            nret += 1
            if not none:
                ck.finding('C04.R7', DEC + 'decap', 'frame-exit-keeps-label', 'a frame-level exit of decap (short buffer / padding) does not clear last_label')
            continue
        k = kind[1][0][0]
        if k in (2, 3):
            nret += 1
            if not (unchanged or none):
                ck.finding('C04.R6', DEC + 'decap', 'fragment-writes-label', 'an intermediate / end packet sets last_label')
            continue
        ltg = ghost(w, 'lt')
        if ltg is None or ltg[0] != 'enum' or len(ltg[1]) != 1:
            ck.finding('C04.R5', DEC + 'decap', 'label-type-unknown', 'label type of a start/complete packet not a single variant at return')
            continue
        tname = f.variant_name(LT, ltg[1][0][0])
        pk = 'complete' if k == 0 else 'first'
        some_pkt = c15.is_some_of(lastF, lambda p: label_from_packet(p, d, k, tname))
        for v, fs in alts:
            nret += 1
            ck.obligations += 1
            if v == 0:
                if tname in ('SixBytesLabel', 'ThreeBytesLabel'):
                    ok, want = some_pkt, "Some(<label parsed from this packet>)"
                elif tname == 'Broadcast':
                    ok, want = none, 'None'
                else:
                    ok, want = unchanged and not none_only_by_write(dlast0, lastF), 'unchanged'
                    ok = unchanged
            else:
                if tname == 'ReUse':
                    ok, want = none or unchanged, 'None or unchanged'
                else:
                    ok, want = none or some_pkt, "None or Some(<this packet's label>)"
            ck.sample({'packet': pk, 'label_type': tname, 'result': 'Ok' if v == 0 else 'Err',
                       'last_label_after': 'None' if none else ('Some(label of this packet)' if some_pkt else ('unchanged' if unchanged else 'OTHER'))})
            if ok:
                ck.discharged += 1
            else:
                ck.finding('C04.R5', DEC + 'decap', f"exit:{pk}:{tname}:{'Ok' if v == 0 else 'Err'}",
                           f"decap ({pk} packet, {tname} label, {'Ok' if v == 0 else 'Err'} return): last_label is not {want}: a later re-use label would resolve past the nearest start/complete packet")
            # the label reported for a re-use packet is the remembered one
            if v == 0 and tname == 'ReUse':
                md = reported_label(fs)
                if md is not None and not reported_is_remembered(md, dlast0, w):
                    ck.finding('C04.R5', DEC + 'decap', f"reuse-resolves-elsewhere:{pk}", f"decap ({pk} packet): a re-use label is not resolved to the remembered label")
    ck.rule('C04.R5 returns of decap examined by packet kind / label type', nret, 20)
    # R6: who writes Decapsulator.last_label
    writers = c15.who_writes(f, DECAPS, ['last_label'])['last_label']
    allowed = {'new', 'reset_last_label', 'decap', 'decap_complete', 'decap_first', 'decap_intermediate', 'decap_end'}
    for fn in writers:
        if short(fn) not in allowed and f.body(fn).public:
            ck.finding('C04.R6', fn, 'writes:last_label', f"public function {short(fn)} writes Decapsulator.last_label; not one of the reviewed entry points")
    ck.rule('C04.R6 writers of Decapsulator.last_label', len(writers), 5)
    # R3: substitution guard (shared with C15.R3 / R4)
    c15.substitution_guard(ck, 'C04.R3')
    # R8: encap_frag / the previews (and any other public function) do not touch the sender's label memory
    ew = c15.who_writes(f, 'gse_encap::Encapsulator', ['last_label', 're_current_consecutive'])
    e_allowed = {'new', 'reset_last_label', 'disable_re_use_label', 'enable_re_use_label', 'enable_re_use_label_with_max_consecutive', 'check_label_re_use', 'encap', 'encap_ext'}
    n8 = 0
    for fld, fns in ew.items():
        for fn in fns:
            n8 += 1
            if short(fn) not in e_allowed and '::clone' not in fn and f.body(fn).public:
                ck.finding('C04.R8', fn, f"writes:{fld}", f"public function {short(fn)} writes Encapsulator.{fld}: the sender's label memory may only move with a start/complete packet, a reset or a reconfiguration")
    ck.rule('C04.R8 writers of the sender label memory', n8, 8)
    # R7: both resets
    for key, idx in ((ENC + 'reset_last_label', c.i_last), (DEC + 'reset_last_label', i_dlast)):
        s = ck.analyse(key, {'kslots': 2})
        for w, rv in s.rets:
            if not c15.is_none(s.I.read(w, s.args[0][1])[1][idx]):
                ck.finding('C04.R7', key, 'reset-keeps-label', f"{key}: last_label is not None afterwards")
        ck.rule(f'C04.R7 {short(key)} ({key.split("::")[1]})', len(s.rets), 1)
    # R9 / R3 quoted from C15 (setters clear the memory; substitution guard)
    for m in ('disable_re_use_label', 'enable_re_use_label', 'enable_re_use_label_with_max_consecutive'):
        s = ck.analyse(ENC + m, {'kslots': 4})
        for w, rv in s.rets:
            if not c15.is_none(s.I.read(w, s.args[0][1])[1][c.i_last]):
                ck.finding('C04.R9', ENC + m, 'last-label-kept', f"{m} keeps last_label: a label memorised before the reconfiguration is re-used afterwards although the receiver saw other labels in between")
    ck.assumptions += ['packets are delivered in order and both label memories are reset at the same frame boundaries (premise of the property)',
                       'the induction over histories (invariant: sender.last_label is None or equals receiver.last_label) is a paper argument; the checks are its per-transition obligations',
                       'delivery itself ("every PDU sent with an explicit label is delivered") is the subject of C01/C02, not decided here']
    return ck.finish(
        level='other',
        explanation=('Exit-state rules on both label memories, computed by abstract interpretation: for every return of encap / encap_ext the final '
                     'value of Encapsulator.last_label is compared with what the receiver will remember after the emitted label type (mirror rule), '
                     'failed calls must leave it untouched, the label type bits / label bytes / CRC label are those of the label check_label_re_use '
                     'decided; for every return of decap, per packet kind and label type, Decapsulator.last_label must be Some(label parsed from this '
                     'packet), None or unchanged as the receiver rule prescribes, and every error exit of a start/complete packet forgets older labels.'),
        trusted=['analysis/stdsum.py summaries'])


def none_only_by_write(a, b):
    return False


def sender_wrapper_rules(ck, f, c, r_fail, r_ok):
    """encap / encap_ext around check_label_re_use: a failed call leaves every policy field at its
    initial value; a successful call leaves them as check_label_re_use set them (exactly one call,
    no write outside it). Returns the number of (Err, Ok) returns examined."""
    from rules import c09
    n_err = n_ok = 0
    for wname in ('encap', 'encap_ext'):
        def store_hook(I, w, frame, site, loc, v, _w=wname):
            if frame.body.key == ENC + _w and loc.path and loc.path[0] in (('f', c.i_last), ('f', c.i_cur)):
                w.mem[('G', 'self_written_outside')] = ('enum', ((1, ()),))

        def on_clru(I, w, frame, site, key, args):
            n = w.mem.get(('G', 'clru_calls'), ('int', Lin.c(0)))
            w.mem[('G', 'clru_calls')] = ('int', n[1] + 1)
            w.mem.pop(('G', 'self_written_outside'), None)
        extra = dict(c09.ENCCFG)
        extra['store_hook'] = store_hook
        extra['call_hooks'] = {clru_key(f): on_clru}
        a = analyse_writer(ck, ENC + wname, tag='c04', extra=extra)
        init = c09.self_fields(a, a.w0)
        for w, rv in a.rets:
            alts = ret_alts(rv) or []
            fin = c09.self_fields(a, w)
            if any(v == 1 for v, _ in alts):
                n_err += 1
                ck.obligations += 1
                if not same_or_refined(init, fin, w):
                    ck.finding(r_fail, ENC + wname, f"state-changed-then-Err:{c09.changed_fields(f, init, fin, w)}",
                               f"{wname}: a failed call changes {c09.changed_fields(f, init, fin, w)}: the re-use state no longer matches what was put on the wire")
                else:
                    ck.discharged += 1
            if any(v == 0 for v, _ in alts):
                n_ok += 1
                ck.obligations += 1
                bad = False
                if ghost(w, 'self_written_outside') is not None:
                    bad = True
                    ck.finding(r_ok, ENC + wname, 'ok-path-rewrites-memory', f"{wname}: a successful path writes last_label / the counter outside check_label_re_use")
                hc = ghost(w, 'clru_calls')
                if hc is None or not w.store.entails_eq(hc[1], Lin.c(1)):
                    bad = True
                    ck.finding(r_ok, ENC + wname, 'ok-path-without-clru', f"{wname}: a successful path does not call check_label_re_use exactly once")
                if not bad:
                    ck.discharged += 1
    return n_err, n_ok


def label_from_packet(p, d, k, tname):
    """p is a Label value whose bytes come from the input buffer of decap at the label offset"""
    if p[0] != 'enum' or len(p[1]) != 1 or not p[1][0][1]:
        return False
    arr = p[1][0][1][0]
    if arr[0] != 'arr' or arr[2][0] != 'bytes_of':
        return False
    base, start = arr[2][1], arr[2][2]
    buf = d.arg('buffer')
    off = 4 if k == 0 else 7
    return base == buf[1] and start == Lin.c(off)


def reported_label(fs):
    """label field of the DecapMetadata inside an Ok((status, len)) payload"""
    try:
        status = fs[0][1][0]
        if status[0] != 'enum' or len(status[1]) != 1:
            return None
        var, pl = status[1][0]
        md = pl[-1]
        if md[0] != 'agg':
            return None
        for x in md[1]:
            if x[0] == 'enum':
                return x
    except Exception:
        return None
    return None


def reported_is_remembered(lbl, last0, w):
    if last0[0] != 'enum':
        return False
    for v, fs in last0[1]:
        if v == 1 and fs and same_or_refined(fs[0], lbl, w):
            return True
    return False
