"""C05 — decap and the peek are total; consumed length bounded and progressing."""
from framework import *
FLOOR_R1, FLOOR_R2, FLOOR_R4 = 2000, 20, 40       # basic blocks interpreted (about a third of what the pinned tree gives)


def run(ck):
    f = ck.facts
    # R1: PANIC over decap (+ inlined decap_*, walker, Label::new, Extension::new ...)
    a = ck.analyse(DEC + 'decap', decap_cfg(f))
    n = ck.count_obligations(a.obligations(), 'C05.R1')
    ck.panic_rule('C05.R1 panic-freedom of decap (abstract interpretation)', n, [a], FLOOR_R1)
    reached = a.I.stats['functions']
    for need in ('read_gse_header',):
        if not any(short(x) == need for x in reached):
            ck.finding('C05.R1', need, 'anchor-lost', f"{need} is no longer reached from decap (kind=anchor-lost)")
    # R4: the peek
    p = ck.analyse(DEC + 'get_label_or_frag_id', {'kslots': 2})
    n = ck.count_obligations(p.obligations(), 'C05.R4')
    ck.panic_rule('C05.R4 panic-freedom of get_label_or_frag_id', n, [p], FLOOR_R4)
    # R2: bundled memory, with its struct invariant
    inv = mem_invariant(f)
    tot = 0
    ams = []
    for m in ('provision_storage', 'new_pdu', 'new_frag', 'take_frag', 'save_frag'):
        am = ck.analyse(MEM + m, {'kslots': 4}, assume=inv)
        ams.append(am)
        tot += ck.count_obligations(am.obligations(), 'C05.R2')
    ck.panic_rule('C05.R2 panic-freedom of SimpleGseMemory methods', tot, ams, FLOOR_R2)
    # R3: consumed length
    buf = a.arg('buffer')
    blen = buf[3]
    nret = 0
    for w, rv in a.rets:
        if rv[0] != 'enum':
            ck.finding('C05.R3', DEC + 'decap', 'ret-shape', 'return value of decap not recognisable')
            continue
        for var, fs in rv[1]:
            nret += 1
            tup = fs[0]
            if tup[0] != 'agg' or tup[1][1][0] != 'int':
                ck.finding('C05.R3', DEC + 'decap', 'ret-shape', 'return tuple of decap not recognisable')
                continue
            c = tup[1][1][1]
            ok_hi = w.store.entails(le(c, blen))
            ok_lo = w.store.entails(le(Lin.c(2), c)) or w.store.entails_eq(c, blen)
            ck.obligations += 2
            ck.discharged += int(ok_hi) + int(ok_lo)
            kind = 'Ok' if var == 0 else 'Err'
            ck.sample({'return': kind, 'consumed': c.pretty(), 'le_buffer_len': ok_hi, 'ge_min(2,len)': ok_lo})
            if not ok_hi:
                ck.finding('C05.R3', DEC + 'decap', f"consumed>{kind}", f"decap {kind} return: consumed length {c.pretty()} not shown <= buffer length")
            if not ok_lo:
                ck.finding('C05.R3', DEC + 'decap', f"consumed<{kind}", f"decap {kind} return: consumed length {c.pretty()} not shown >= min(2, buffer length)")
    ck.rule('C05.R3 consumed length within [min(2,len), len] at every return', nret, 2)
    ck.assumptions += [
        'GseDecapMemory / CrcCalculator / MandatoryHeaderExtensionManager implementations supplied by the user are total and obey the documented contract (take_frag/new_frag hand out contexts with pdu_len <= storage length; checked back at every save_frag)',
        'summaries of core/alloc functions in analysis/stdsum.py',
        'slice, Vec and Box lengths are <= isize::MAX',
        'debug-build pointer alignment / null checks on references cannot fire (crate has no unsafe code: census re-checked)',
    ]
    return ck.finish(
        level='other',
        explanation=('Abstract interpretation of the MIR of Decapsulator::decap (with decap_complete/first/intermediate/end, the extension '
                     'walker, read_gse_header, Label::new, Extension::new inlined per call site), get_label_or_frag_id and the five '
                     'SimpleGseMemory methods: every Assert terminator, unwrap/expect, slice range, copy_from_slice length, reachable '
                     'panic!/todo!/unreachable! is a proof obligation over symbolic buffer lengths and contents; all must be entailed by the '
                     'linear constraint store of every partition (label type x packet kind x flags). Covers every buffer length and every '
                     'receiver state at once; decides panic-freedom and the consumed-length bounds, not reassembly correctness.'),
        trusted=['rustc MIR construction', 'analysis/stdsum.py summaries', 'analysis/lin.py Fourier-Motzkin + integer propagation'])
