"""C06 — every emitted packet is a well-formed, length-accurate GSE packet."""
from framework import *
from rules import c09

ST = 'gse_encap::EncapStatus'


def run(ck, writers=('encap', 'encap_frag', 'encap_ext'), pid_rules='C06', floors=(20, 12, 60)):
    f = ck.facts
    n_hdr = n_ret = n_rows = 0
    for wname in writers:
        a = analyse_writer(ck, ENC + wname, extra=c09.ENCCFG)
        env, rows = writer_rows(ck, a, wname)
        B, P = env['B'], env['P']
        # ---- R1: 12-bit length at every header call
        for r in a.events('call'):
            if r.data[1] != GEN_HDR:
                continue
            n_hdr += 1
            W, g = r.data[5], r.data[3][2]
            ck.obligations += 1
            if g[0] != 'int' or has_trunc(g[1]):
                ck.finding(f'{pid_rules}.R1', ENC + wname, 'gse-len-truncated', f"{wname}: the GSE length handed to generate_gse_header went through a lossy cast (value may exceed 16 bits)", r.site)
            elif not (W.store.entails(le(g[1], Lin.c(4095))) and W.store.entails(le(Lin.c(0), g[1]))):
                ck.finding(f'{pid_rules}.R1', ENC + wname, 'gse-len>4095', f"{wname}: GSE length {g[1].pretty()} not shown <= 4095 at the header call", r.site,
                           {'partition': hdr_partition(f, W)})
            else:
                ck.discharged += 1
        # ---- R2 / R5 / R3 at Ok returns
        for w, rv in a.rets:
            for v, fs in (ret_alts(rv) or []):
                if v != 0:
                    continue
                n_ret += 1
                st = fs[0]
                if st[0] != 'enum' or len(st[1]) != 1:
                    ck.finding(f'{pid_rules}.R5', ENC + wname, 'status-unknown', f"{wname}: Ok status not a single variant at return")
                    continue
                sname = f.variant_name(ST, st[1][0][0])
                rlen = st[1][0][1][0]
                part = hdr_partition(f, w)
                g = ghost(w, 'hdr_len')
                if part is None or g is None or g[0] != 'int':
                    ck.finding(f'{pid_rules}.R2', ENC + wname, 'no-header-ghost', f"{wname}: an Ok return without a recorded generate_gse_header call")
                    continue
                ck.obligations += 3
                # R5 kind <-> status
                if STATUS_OF_KIND[part[0]] != sname:
                    ck.finding(f'{pid_rules}.R5', ENC + wname, f"kind-status:{part[0]}:{sname}", f"{wname}: a {part[0]} header is returned as {sname}")
                else:
                    ck.discharged += 1
                # R2 returned length = GSE length + 2 <= buffer
                if rlen[0] != 'int' or has_trunc(rlen[1]):
                    ck.finding(f'{pid_rules}.R2', ENC + wname, f"returned-length-truncated:{part[0]}", f"{wname} ({part[0]}): returned packet length went through a lossy cast")
                elif not w.store.entails_eq(rlen[1], g[1] + 2):
                    ck.finding(f'{pid_rules}.R2', ENC + wname, f"returned-length:{part[0]}", f"{wname} ({part[0]}): returned length {rlen[1].pretty()} is not GSE length {g[1].pretty()} + 2")
                elif not w.store.entails(le(rlen[1], B)):
                    ck.finding(f'{pid_rules}.R2', ENC + wname, f"returned-length>buffer:{part[0]}", f"{wname} ({part[0]}): returned length not shown <= buffer length")
                else:
                    ck.discharged += 1
                # R3 write extent = [0, returned length), tiled without overlap
                wr = ghost(w, 'writes')
                if wr is None or wr[0] != 'agg':
                    ck.finding(f'{pid_rules}.R3', ENC + wname, f"writes-unknown:{part[0]}", f"{wname} ({part[0]}): set of written intervals not known at return")
                else:
                    ivs = [(x[1][0][1], x[1][1][1]) for x in wr[1]]
                    total = Lin.c(0)
                    ok = True
                    for i, (s1, l1) in enumerate(ivs):
                        total = total + l1
                        for (s2, l2) in ivs[i + 1:]:
                            if not (w.store.entails(le(s1 + l1, s2)) or w.store.entails(le(s2 + l2, s1))):
                                ok = False
                    if not ok:
                        ck.finding(f'{pid_rules}.R3', ENC + wname, f"overlap:{part[0]}", f"{wname} ({part[0]}): written intervals are not pairwise disjoint")
                    elif not w.store.entails_eq(total, rlen[1]):
                        if any(x in a.I.loop_atoms for x in (total - rlen[1]).atoms()):
                            # a chain of any length: the bytes written are one gap-free run (adjacent writes coalesce, overlaps are
                            # reported at the write), but that its end is the returned length relates two loops over the
                            # extensions; decided for chains of up to three extensions in C13.R8
                            ck.declined_instances += 1
                            dk = {'fn': wname, 'site': None, 'obligation': f"bytes written {total.pretty()} == returned length {rlen[1].pretty()}", 'reason': 'two loops over the extension list (decided for chains of 1..3 extensions by C13.R8)'}
                            if dk not in ck.declined:
                                ck.declined.append(dk)
                        else:
                            ck.finding(f'{pid_rules}.R3', ENC + wname, f"extent:{part[0]}", f"{wname} ({part[0]}): bytes written {total.pretty()} differ from the returned length {rlen[1].pretty()}")
                    else:
                        ck.discharged += 1
                ck.sample({'fn': wname, 'kind': part[0], 'label_type': part[1], 'status': sname, 'returned': rlen[1].pretty() if rlen[0] == 'int' else '?', 'gse_len': g[1].pretty()})
        # ---- R3 (per write) no write lands on bytes already written
        for r in a.events('write_overlap'):
            start, ln, s0, l0 = r.data[1:5]
            ck.finding(f'{pid_rules}.R3', ENC + wname, 'overlap-at-write', f"{wname}: the write [{start.pretty()}, +{ln.pretty()}) is neither adjacent to nor shown disjoint from the earlier write [{s0.pretty()}, +{l0.pretty()})", r.site)
        # ---- R3 (per write) nothing beyond the packet, R4 field order
        seen_fields = {}
        for row in rows:
            part = row['part']
            W = row['W']
            if part is None:
                ck.finding(f'{pid_rules}.R4', ENC + wname, 'write-before-header', f"{wname}: a write into the buffer happens before the header call", row['site'])
                continue
            n_rows += 1
            g = row.get('g') or ghost(W, 'hdr_len')
            L = LABEL_LEN[part[1]]
            end = row['start'] + row['len']
            ck.obligations += 2
            if not W.store.entails(le(end, g[1] + 2)):
                in_loop_region = wname == 'encap_ext' and a.I._loop_dependent(W, le(end, g[1] + 2))
                if in_loop_region:
                    ck.declined_instances += 1
                    ck.declined.append({'fn': wname, 'site': site_str(row['site']), 'obligation': f"write end {end.pretty()} <= packet length", 'reason': 'offset accumulated in the extension loops'})
                else:
                    ck.finding(f'{pid_rules}.R3', ENC + wname, f"write-beyond:{part[0]}:{row['src'][0]}", f"{wname} ({part[0]}): write of {row['src'][0]} ends at {end.pretty()}, not shown within the packet length", row['site'])
            else:
                ck.discharged += 1
            # field order
            kind = row['src'][0]
            if W.store.entails_eq(row['len'], Lin.c(0)) and not (kind in ('label',) and L == 0):
                # a write of no bytes (`copy_from_slice(&[])` for an extension without data) is not a field: nothing to place
                ck.discharged += 1
                continue
            if wname == 'encap_ext' and kind in ('be?', 'arr?', 'seq?', '?', 'ptype', 'pdu', 'value?'):
                # extension area: ids / data / displaced protocol type / payload after the chain: layout not decided (C13)
                ck.declined_instances += 1
                dk = {'fn': wname, 'site': site_str(row['site']), 'obligation': f"field at the ETSI offset for a write of kind {kind}", 'reason': 'extension area of encap_ext: offsets accumulated in the extension loops'}
                if dk not in ck.declined:
                    ck.declined.append(dk)
                continue
            spec = {n: (o, l) for n, o, l in spec_fields(part[0], L)}
            if kind not in spec:
                ck.finding(f'{pid_rules}.R4', ENC + wname, f"unexpected-field:{part[0]}:{kind}", f"{wname} ({part[0]}): writes {row['src']} which is not a field of that packet kind", row['site'])
                continue
            off, ln = spec[kind]
            okf = True
            empty = ln == 0 and W.store.entails_eq(row['len'], Lin.c(0))      # an empty field writes nothing, wherever it is "placed"
            if off is not None and not empty and not W.store.entails_eq(row['start'], Lin.c(off)):
                okf = False
            if ln is not None and not W.store.entails_eq(row['len'], Lin.c(ln)):
                okf = False
            if kind == 'crc' and not W.store.entails_eq(row['start'] + 4, g[1] + 2):
                okf = False
            if kind == 'pdu':
                src0 = Lin.c(0) if wname != 'encap_frag' else env['c']
                if not W.store.entails_eq(row['src'][1], src0):
                    okf = False
                if part[0] == 'CompletePkt' and not W.store.entails_eq(row['len'], P):
                    okf = False
                if part[0] == 'EndFragPkt' and not W.store.entails_eq(row['src'][1] + row['len'], P):
                    okf = False
                if part[0] != 'EndFragPkt' and not W.store.entails_eq(row['start'] + row['len'], g[1] + 2):
                    okf = False
            if okf:
                ck.discharged += 1
                seen_fields.setdefault(part, set()).add(kind)
            else:
                ck.finding(f'{pid_rules}.R4', ENC + wname, f"field-misplaced:{part[0]}:{part[1]}:{kind}",
                           f"{wname} ({part[0]}, {part[1]}): field {kind} written at [{row['start'].pretty()}, +{row['len'].pretty()}) instead of offset {off} length {ln}", row['site'])
        for part, kinds in seen_fields.items():
            L = LABEL_LEN[part[1]]
            for n, o, l in spec_fields(part[0], L):
                if n == 'label' and L == 0:
                    continue
                if wname == 'encap_ext' and n in ('ptype', 'pdu'):
                    continue
                if n not in kinds:
                    ck.finding(f'{pid_rules}.R4', ENC + wname, f"field-missing:{part[0]}:{part[1]}:{n}", f"{wname} ({part[0]}, {part[1]}): field {n} is never written at its place")
        # R6: intermediate / end packets use the re-use label type and carry no label
        for part in seen_fields:
            if part[0] in ('IntermediateFragPkt', 'EndFragPkt') and part[1] != 'ReUse':
                ck.finding(f'{pid_rules}.R6', ENC + wname, f"fragment-label-type:{part}", f"{wname}: {part[0]} emitted with label type {part[1]} (must be 11: it reads as padding or a labelled packet otherwise)")
    if 'encap_ext' in writers:
        # what the general analysis of encap_ext has to decline (offsets carried through the two loops over the extensions) is
        # decided exactly for chains of one, two and three extensions: written bytes = [0, returned length), every id / data
        # block / displaced protocol type / PDU at its ETSI offset for the label type announced in the header
        from rules import c13
        c13.bounded_chain_rules(ck, pid=f'{pid_rules}.R8', parts=('tiling', 'layout'))
    ck.rule(f'{pid_rules}.R1 generate_gse_header calls in emitters', n_hdr, floors[0])
    ck.rule(f'{pid_rules}.R2/R3/R5 Ok returns of emitters', n_ret, floors[1])
    ck.rule(f'{pid_rules}.R3/R4 writes into the output buffer classified against the spec table', n_rows, floors[2])
    return None


def main(ck):
    run(ck)
    ck.assumptions += ['for encap_ext the bytes of the extension area (ids, data, displaced protocol type) and the payload offset after it are written inside / after two loops: their offsets are declined (C13); header, fragment id, total length, label, returned length and GSE length of encap_ext are decided',
                       'spec table: ETSI TS 102 606 clause 4.2 field order (analysis/framework.py:spec_fields)']
    return ck.finish(
        level='other',
        explanation=('For every partition (packet kind x label type) of encap, encap_frag and encap_ext the abstract interpreter yields the GSE length '
                     'passed to generate_gse_header, the returned status and length, and the table of intervals written into the output buffer with '
                     'the provenance of the bytes. Rules: 0 <= GSE length <= 4095 before the u16 cast; returned length = GSE length + 2 <= buffer; '
                     'written intervals pairwise disjoint, summing to the returned length, none beyond it; each write is the field the ETSI layout '
                     'puts at that offset (header, frag id, total length = be16(2+L+P), protocol type, label, payload window, CRC last); packet '
                     'kind matches the returned status; fragments use label type 11.'),
        trusted=['analysis/stdsum.py summaries (copy_from_slice copies in order, to_be_bytes is big endian)'])
