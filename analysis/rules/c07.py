"""C07 — concurrent reassemblies are isolated (footprint / frame rule)."""
from framework import *
from rules import c03, c17

FOOT = {0: {'new_pdu', 'provision_storage'},
        1: {'new_frag', 'provision_storage', 'save_frag'},
        2: {'take_frag', 'provision_storage', 'save_frag'},
        3: {'take_frag', 'provision_storage'}}
KNAME = {0: 'complete', 1: 'first', 2: 'intermediate', 3: 'end'}


def frag_id_of_packet(a, v):
    """is the integer value v the fragment id byte (offset 2) of the buffer passed to decap?"""
    if v[0] != 'int' or len(v[1].terms) != 1 or v[1].const != 0:
        return False
    d = ATOMS.info(v[1].terms[0][0]).defn
    buf = a.arg('buffer')
    if not d:
        return False
    if d[0] == 'be':
        return d[1] == buf[1] and d[2] == Lin.c(2) and d[3] == 1
    if d[0] == 'elem':
        return isinstance(d[1], tuple) and d[1][0] == 'pointee' and d[1][1] == ('param', a.param_name('buffer')) and d[2] == Lin.c(2)
    return False


def run(ck):
    f = ck.facts
    a = c03.decap_analysis(ck, tag='c07')
    i_fid = field_index(f, CTX, 'frag_id')
    # ---- R1 footprint: which memory operations each packet kind performs, and for which id
    seen = {k: set() for k in FOOT}
    ncalls = 0
    for r in a.events('call'):
        callee = r.data[2]
        if not callee.startswith(TRAIT_MEM):
            continue
        m = callee.split('::')[-1]
        W = r.data[5]
        k = ghost(W, 'kind')
        if k is None:
            ck.finding('C07.R1', r.site[0], f"memory-call-outside-packet:{m}", f"{short(r.site[0])} calls {m} outside the handling of a packet kind", r.site)
            continue
        kind = k[1][0][0]
        ncalls += 1
        seen[kind].add(m)
        if m not in FOOT[kind]:
            ck.finding('C07.R1', r.site[0], f"footprint:{KNAME[kind]}:{m}", f"a {KNAME[kind]} packet calls {m} on the memory: outside the footprint {sorted(FOOT[kind])}", r.site)
        ck.obligations += 1
        okid = True
        if m == 'take_frag':
            okid = frag_id_of_packet(a, r.data[3][1])
            what = 'take_frag is not called with the fragment id byte of this packet'
        elif m == 'new_frag':
            c = r.data[3][1]
            okid = c[0] == 'agg' and frag_id_of_packet(a, c[1][i_fid])
            what = 'new_frag is not given a context carrying the fragment id byte of this packet'
        elif m == 'save_frag':
            mc = r.data[3][1]
            cb = c03.taken_ctx_box(W)
            if kind == 2:
                okid = cb is not None and mc[0] == 'agg' and mc[1][0][0] == 'agg' and c03.veq(W, mc[1][0][1][i_fid], cb[0][1][i_fid]) and mc[1][1] == cb[1]
                what = 'the context saved is not the one taken (same id, same buffer)'
            else:
                okid = mc[0] == 'agg' and mc[1][0][0] == 'agg' and frag_id_of_packet(a, mc[1][0][1][i_fid])
                what = 'the context saved by a first fragment does not carry the fragment id of this packet'
        if okid:
            ck.discharged += 1
        else:
            ck.finding('C07.R1' if m != 'save_frag' else 'C07.R2', r.site[0], f"id-source:{KNAME[kind]}:{m}", f"{KNAME[kind]} packet: {what}", r.site)
    for kind, ms in seen.items():
        need = {0: {'new_pdu'}, 1: {'new_frag', 'save_frag'}, 2: {'take_frag', 'save_frag'}, 3: {'take_frag'}}[kind]
        if not need <= ms:
            ck.finding('C07.R1', DEC + 'decap', f"footprint-missing:{KNAME[kind]}", f"a {KNAME[kind]} packet no longer performs {sorted(need - ms)} (kind=anchor-lost)")
        ck.sample({'packet kind': KNAME[kind], 'memory operations': sorted(ms)})
    ck.rule('C07.R1 memory trait calls of decap by packet kind', ncalls, 12)
    # ---- R3/R4/R5: slot frame rule of the bundled memory = the scenario table of C17
    c17.run(ck, pid='C07')
    ck.assumptions += ['paper consequence: packets of id i touch slot(i) only through take/new/save with id i; a non-first packet of id j != i leaves slot(i) unchanged even when slot(i) = slot(j) (take_frag scenarios some-lt / some-gt); hence every order-preserving merge behaves per id like the isolated train',
                       'exhaustion of the shared free list by other ids is a resource question (C08 / C16), not isolation']
    return ck.finish(
        level='other',
        explanation=('Footprint rule on decap: per packet kind the set of GseDecapMemory operations performed and the provenance of the fragment id '
                     'they are performed with (byte 2 of this packet; the saved context is the taken one). Frame rule on SimpleGseMemory: under every '
                     'scenario of the slot (empty, same id, other id below / above) the path summaries of take_frag / new_frag / save_frag leave a '
                     'slot holding another id exactly as it was, only new_frag replaces an occupied slot, and all three use frag_id % max_frag_id.'),
        trusted=['analysis/stdsum.py'])
