"""C08 — storage buffers are conserved: never leaked, never duplicated."""
from framework import *


def drop_findings(ck, a, rule):
    n = 0
    for r in a.events('drop'):
        _, owned, place, part = r.data[:4]
        n += 1
        for o in owned:
            origin = o[2] if len(o) > 2 else None
            key = f"drop:{origin_key(origin)}"
            ck.finding(rule, r.site[0], key,
                       f"{short(r.site[0])}: storage buffer ({origin_str(origin)}) still owned by `{place}` is dropped (leak)", r.site,
                       {'partition': [list(x) for x in (part or ())], 'context': [f"{short(c[0])}@bb{c[1]}" for c in r.ctx]})
    for r in a.events('escape'):
        _, owned, callee, part = r.data[:4]
        n += 1
        ck.finding(rule, r.site[0], f"escape:{callee}",
                   f"{short(r.site[0])}: a storage buffer ({origin_str(owned[0][2] if len(owned[0]) > 2 else None)}) is handed by value to {callee}, "
                   "for which the checker has no ownership summary: conservation not shown", r.site)
    return n


def origin_key(o):
    """stable part of a finding key: where the buffer came from, without the names of locals or parameters"""
    if isinstance(o, tuple) and o and o[0] == 'param':
        return 'parameter'
    return origin_str(o)


def origin_str(o):
    if o is None:
        return 'unknown origin'
    if isinstance(o, tuple):
        if o[0] == 'trait':
            return f"result of {o[1].split('::')[-1]}"
        if o[0] == 'param':
            return f"parameter {o[1]}"
        if o[0] in ('vec_pop',):
            return "popped from the free list"
        if o[0] == 'cell':
            return "taken out of a slot"
        return str(o[0])
    return str(o)


def run(ck):
    f = ck.facts
    a = ck.analyse(DEC + 'decap', decap_cfg(f))
    # R1: no Drop terminator reached with a live storage box
    drops = [r for r in a.records if r.kind == 'event' and r.data[0] == 'drop']
    drop_findings(ck, a, 'C08.R1')
    ck.rule('C08.R1 Drop terminators executed abstractly in decap (all partitions)', a.I.stats.get('drops_executed', 0), 20)
    # R2: every acquisition is matched: count acquisitions and sinks for the evidence
    acq = [r for r in a.events('call') if r.data[2] in (TRAIT_MEM + 'new_pdu', TRAIT_MEM + 'new_frag', TRAIT_MEM + 'take_frag')]
    sinks = [r for r in a.events('call') if r.data[2] in (TRAIT_MEM + 'provision_storage', TRAIT_MEM + 'save_frag')]
    ck.rule('C08.R2 acquisition call sites (new_pdu/new_frag/take_frag)', len(set((r.ctx, r.site[0], r.site[1]) for r in acq)), 4)
    ck.rule('C08.R2 give-back / save call sites (provision_storage/save_frag)', len(set((r.ctx, r.site[0], r.site[1]) for r in sinks)), 6)   # activations: a give-back helper called from seven exits counts seven times
    for r in sinks[:4]:
        ck.sample({'sink': r.data[2].split('::')[-1], 'fn': short(r.site[0]), 'site': site_str(r.site)})
    # R4: a panicking give-back loses the buffer it carries
    for r in a.obligations():
        d = r.data
        if not d['ok'] and d.get('drops'):
            ck.finding('C08.R4', r.site[0], f"panic-drops:{d['desc']}", f"{short(r.site[0])}: {d['desc']} — the value that panics carries a storage buffer", r.site)
    # R1 on the bundled memory and the two pass-through methods
    inv = mem_invariant(f)
    for m in ('provision_storage', 'new_pdu', 'new_frag', 'take_frag', 'save_frag'):
        am = ck.analyse(MEM + m, {'kslots': 4}, assume=inv)
        drop_findings(ck, am, 'C08.R1')
    for m in ('new_pdu', 'provision_storage'):
        ap = ck.analyse(DEC + m, decap_cfg(f))
        drop_findings(ck, ap, 'C08.R1')
    # R3: no duplication: no clone of storage-typed values outside derives
    nclone = 0
    for b in f.non_derived():
        for blk in b.blocks:
            t = blk['term']
            if t['t'] != 'call' or 'fn' not in t['func']:
                continue
            fn = t['func']['fn']
            nm = fn.get('resolved') or fn['name']
            if nm.endswith('::clone') or nm.endswith('::to_vec') or nm.endswith('::to_owned'):
                nclone += 1
                at = ' '.join(x['s'] for x in t['arg_tys'])
                if 'Box<[u8]>' in at or 'MemoryContext' in at or 'SimpleGseMemory' in at or 'DecapStatus' in at or 'DecapMemoryError' in at:
                    ck.finding('C08.R3', b.key, f"clone:{at}", f"{short(b.key)} clones a storage-carrying value ({at})", (b.key, blk['i'], 't', t['span']['line'], t['span']['file']))
    ck.rule('C08.R3 clone/to_vec call sites inspected in non-derive code', nclone, 1)
    ck.assumptions += ['what a user-written GseDecapMemory does with the buffers it is given is outside the claim',
                       'duplication is excluded by ownership (Box<[u8]> is not Copy; the crate has no unsafe code: census)']
    return ck.finish(
        level='other',
        explanation=('Ownership analysis on the MIR of decap (all four packet kinds inlined), Decapsulator::{new_pdu,provision_storage} and the five '
                     'SimpleGseMemory methods: storage boxes obtained from new_pdu/new_frag/take_frag, parameters, the free list or a slot are '
                     'tracked through moves; a Drop terminator reached on a normal edge while the place still owns such a box is a leak. '
                     'Every error exit of decap is covered because every path of the CFG is. Clones of storage-carrying values are searched for in '
                     'all non-derive bodies.'),
        trusted=['rustc drop elaboration (MIR Drop terminators are where values die)', 'analysis/stdsum.py summaries'])
