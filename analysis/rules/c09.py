"""C09 — encapsulation calls are total and failure-atomic."""
from framework import *
FLOOR_R1 = 900        # basic blocks interpreted (about a third of what the pinned tree gives)

WRITERS = ['encap', 'encap_frag', 'encap_ext']
# encap_ext sums the extension lengths in one loop and spends them in another: obligations that need that relation are declined
# in the analysis for chains of any length (also when they are only tied to the sum through what is known about the buffer
# length) and are all decided for chains of 1, 2 and 3 extensions by c13.bounded_chain_rules
ENCCFG = {'decline_loop_obligations_in': {ENC + 'encap_ext'}, 'decline_transitive': True}


def self_fields(a, w):
    """values of the fields of *self in world w (None when there is no self)"""
    t1 = a.body.local_ty(1) if a.body.arg_count else None
    if not (t1 and t1['k'] == 'ref' and t1['to']['k'] == 'adt' and t1['to']['name'].endswith('Encapsulator')):
        return None
    ref = a.args[0]
    if ref[0] != 'ref':
        return None
    return a.I.read(w, ref[1])


def zero_label_tests(a, facts):
    six = variant_index(facts, 'label::Label', 'SixBytesLabel')
    keys = []
    for r in a.events('eqtest'):
        _, k, la, va, lb, vb = r.data
        for v in (va, vb):
            if v[0] == 'enum' and len(v[1]) == 1 and v[1][0][0] == six:
                pl = v[1][0][1][0]
                if pl[0] == 'arr' and pl[2][0] == 'elems' and all(e == ('int', Lin.c(0)) for e in pl[2][1]) and len(pl[2][1]) == 6:
                    keys.append(k)
    return keys


def zero_label_excluded(a, facts, W, zkeys):
    """in world W the label passed in the metadata cannot be SixBytesLabel([0; 6]): either the equality test with that constant
    was taken on its false side, or (byte-wise tests, patterns) the constraints give sum of the six bytes >= 1"""
    if any(W.facts.get(k) is False for k in zkeys):
        return True
    six = variant_index(facts, 'label::Label', 'SixBytesLabel')
    i_label = field_index(facts, 'gse_encap::EncapMetadata', 'label')
    idx = param_index(a.body, 'metadata')
    root = [r for r in W.mem if r[0] == 'L' and r[2] == idx and a.I.frames.get(r[1]) is not None and a.I.frames[r[1]].body is a.body and a.I.frames[r[1]].ctx == ()]
    lab = None
    if root:
        md = W.mem[root[0]]
        if md[0] == 'agg':
            lab = md[1][i_label]
    if lab is None:
        lab = a.arg('metadata')[1][i_label]
    if lab[0] != 'enum':
        return False
    pl = dict(lab[1]).get(six)
    if pl is None:
        return True                      # not a 6-byte label in this world
    if not pl or pl[0][0] != 'arr':
        return False
    total = Lin.c(0)
    for i in range(6):
        x = ATOMS.by_key.get(('arr_elem', pl[0][2], Lin.c(i)))
        if x is None:
            return False                 # a byte nobody looked at cannot have been excluded
        total = total + Lin.atom(x)
    return W.store.entails(le(Lin.c(1), total))


def run(ck):
    f = ck.facts
    i_ptype = field_index(f, 'gse_encap::EncapMetadata', 'protocol_type')
    an = {}
    for wname in WRITERS:
        an[wname] = analyse_writer(ck, ENC + wname, extra=ENCCFG)
    an['encap_preview'] = ck.analyse('gse_encap::encap_preview', {'kslots': 2})
    an['encap_frag_preview'] = ck.analyse('gse_encap::encap_frag_preview', {'kslots': 2})
    # ---- R1 PANIC
    n = 0
    for name, a in an.items():
        n += ck.count_obligations(a.obligations(), 'C09.R1')
    ck.panic_rule('C09.R1 panic-freedom of encap, encap_frag, encap_ext and both previews', n, list(an.values()), FLOOR_R1)
    # the panic obligations of encap_ext that depend on the loops over the extensions are declined above; for chains of one,
    # two and three extensions (one symbolic data length each, loops unrolled) every one of them is decided
    from rules import c13
    c13.bounded_chain_rules(ck, pid='C09.R1b', parts=('panic',))
    # ---- R2 / R3 / R4 at the returns
    n_err = n_ok = 0
    for wname in WRITERS:
        a = an[wname]
        buf = a.arg('buffer')
        broot = buf[1].root
        init_self = self_fields(a, a.w0)
        zkeys = zero_label_tests(a, f) if wname != 'encap_frag' else []
        for w, rv in a.rets:
            alts = ret_alts(rv)
            if alts is None:
                ck.finding('C09.R2', ENC + wname, 'ret-shape', f"{wname}: return value not recognisable")
                continue
            has_err = any(v == 1 for v, _ in alts)
            has_ok = any(v == 0 for v, _ in alts)
            fin_self = self_fields(a, w)
            state_same = init_self is None or (fin_self is not None and same_or_refined(init_self, fin_self, w))
            if has_err:
                n_err += 1
                errs = [f.variant_name('gse_encap::EncapError', fs[0][1][0][0]) if fs and fs[0][0] == 'enum' and len(fs[0][1]) == 1 else '?' for v, fs in alts if v == 1]
                if broot in w.written:
                    ck.finding('C09.R2', ENC + wname, f"buffer-written-then-Err:{errs}", f"{wname}: a path writes into the output buffer and then returns Err({errs})")
                if not state_same:
                    changed = changed_fields(f, init_self, fin_self, w)
                    ck.finding('C09.R3', ENC + wname, f"state-changed-then-Err:{errs}:{changed}", f"{wname}: encapsulator field(s) {changed} differ from their initial value at an Err({errs}) return")
                ck.sample({'fn': wname, 'return': f"Err({errs})", 'buffer_written': broot in w.written, 'state_unchanged': state_same})
            if has_ok:
                n_ok += 1
                if wname == 'encap_frag' and not state_same:
                    ck.finding('C09.R3', ENC + wname, 'state-changed', "encap_frag modifies the encapsulator")
                hc = ghost(w, 'hdr_calls')
                if hc is None or hc[0] != 'int' or not w.store.entails(le(Lin.c(1), hc[1])):
                    ck.finding('C09.R4', ENC + wname, 'ok-without-header', f"{wname}: an Ok return does not pass through generate_gse_header")
        # R4 facts, evaluated where every Ok path must pass: the generate_gse_header call
        nh = 0
        for r in a.events('call'):
            if r.data[1] != GEN_HDR:
                continue
            nh += 1
            W = r.data[5]
            cargs = r.data[3]
            P = a.arg('pdu')[3]
            if wname in ('encap', 'encap_ext'):
                md = a.arg('metadata')
                pt = md[1][i_ptype][1]
                if not zero_label_excluded(a, f, W, zkeys):
                    ck.finding('C09.R4', ENC + wname, 'zero-label-accepted', f"{wname}: a packet is built without the label having been shown different from the zero 6-byte label", r.site)
                lo_ok = W.store.entails(lt(pt, Lin.c(0x100)))
                hi_ok = W.store.entails(le(Lin.c(0x600), pt))
                fact_ok = any(isinstance(k, tuple) and k[0] == 'form' and v is False and is_range_form(k[1], pt) for k, v in W.facts.items())
                if not (lo_ok or hi_ok or fact_ok):
                    ck.finding('C09.R4', ENC + wname, 'ptype-range-accepted', f"{wname}: a packet is built with a protocol type not shown outside 0x0100..=0x05FF", r.site)
                ltv = a.I.read(W, cargs[1][1]) if cargs[1][0] == 'ref' else None
                if ltv is None or ltv[0] != 'enum' or len(ltv[1]) != 1:
                    ck.finding('C09.R4', ENC + wname, 'label-type-unknown', f"{wname}: label type passed to generate_gse_header is not a single variant", r.site)
                else:
                    L = LABEL_LEN[f.variant_name('label::LabelType', ltv[1][0][0])]
                    if not W.store.entails(le(P + 2 + L, Lin.c(65535))):
                        ck.finding('C09.R4', ENC + wname, 'total-length-overflow', f"{wname}: a packet is built with PDU length + 2 + {L} not shown <= 65535", r.site)
            else:
                c = frag_pos(a, f)
                if not W.store.entails(le(c, P)):
                    ck.finding('C09.R4', ENC + wname, 'context-beyond-pdu', "encap_frag: a packet is built with context position not shown <= PDU length", r.site)
        ck.rule(f'C09.R4 generate_gse_header call sites examined in {wname}', nh, 1)
    ck.rule('C09.R2/R3 Err returns examined (buffer untouched, state unchanged)', n_err, 9)
    ck.rule('C09.R4 Ok returns examined (mandatory rejections)', n_ok, 6)
    # previews have no receiver and take shared references only (C18.R3); recorded here for R3
    ck.assumptions += [
        'user CrcCalculator is total',
        'overflow / slicing obligations inside the three loops of encap_ext that depend on loop-carried offsets are declined (listed in declined_sites): the relation between the running offset and the total extension length needs a relational loop invariant that is out of reach; panic-freedom of encap_ext is decided up to those sites only',
        'summaries of core/alloc functions in analysis/stdsum.py',
    ]
    return ck.finish(
        level='other',
        explanation=('Abstract interpretation of encap, encap_frag, encap_ext, encap_preview, encap_frag_preview over symbolic PDU / buffer lengths, '
                     'labels, protocol types and encapsulator states: every panic site is a proof obligation (R1); at every Err return the output '
                     'buffer object has not been written and every field of the encapsulator holds its initial abstract value (R2, R3); at every '
                     'Ok return the facts label != 0^6, protocol type outside 0x100..0x5FF, PDU + 2 + label <= 65535 and context <= PDU hold (R4).'),
        trusted=['rustc MIR construction', 'analysis/stdsum.py summaries', 'analysis/lin.py'])


def changed_fields(f, init, fin, w=None):
    if init is None or fin is None or init[0] != 'agg' or fin[0] != 'agg':
        return ['?']
    a = f.adts.get('gse_encap::Encapsulator')
    out = []
    for i, (x, y) in enumerate(zip(init[1], fin[1])):
        if not same_or_refined(x, y, w):
            out.append(a['variants'][0]['fields'][i]['name'] if a else str(i))
    return out


def is_range_form(form, pt):
    if form[0] != 'and':
        return False
    a, b = form[1], form[2]
    return a == ('cmp', 'le', Lin.c(0x100), pt) and b == ('cmp', 'lt', pt, Lin.c(0x600))


def frag_pos(a, f):
    ctx = a.arg('context')
    v = a.I.read(a.w0, ctx[1])
    i = field_index(f, 'gse_encap::ContextFrag', 'len_pdu_frag')
    return v[1][i][1]
