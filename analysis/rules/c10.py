"""C10 — back-to-back packets and padding in a frame are walked by consumed lengths."""
from framework import *
from rules import c03, c09

DERR = 'gse_decap::DecapError'
DS = 'gse_decap::DecapStatus'
MUST_PKT = {'ErrorCrc', 'ErrorMemory', 'ErrorUnkownMandatoryHeader', 'ErrorNoLabelSaved', 'ErrorLabelBroadcastSaved', 'ErrorLabelReUseSaved'}


RGH = 'gse_decap::read_gse_header'


def run(ck):
    f = ck.facts

    def acquired(I, w, frame, site, args, rv):
        w.mem[('G', 'acq')] = ('enum', ((1, ()),))

    def decoded(I, w, frame, site, args, rv):
        # what read_gse_header answered (None / Some): a keyed ghost, so padding and packet paths are never merged
        w.mem[('G', 'rgh')] = ('enum', tuple((v_, ()) for v_, _ in rv[1])) if rv[0] == 'enum' else ('top', None, 'ghost', 'rgh')
    a = ck.analyse(DEC + 'decap', decap_cfg(f, {'call_hooks': c03.kind_hooks(),
                                                'ret_hooks': {TRAIT_MEM + 'new_pdu': acquired, TRAIT_MEM + 'new_frag': acquired, TRAIT_MEM + 'take_frag': acquired, RGH: decoded}}), tag='c10')
    buf = a.arg('buffer')
    blen = buf[3]
    gse = c03.ghost_gse_len(a, None)
    if gse is None:
        raise Tooling('anchor lost: decap does not decode the GSE length from the first two bytes of the buffer')
    pkt = gse + 2
    # ---- R1 consumed length per outcome
    nret = 0
    for w, rv in a.rets:
        kind = ghost(w, 'kind')
        for v, fs in (ret_alts(rv) or []):
            tup = fs[0]
            outcome, c = tup[1][0], tup[1][1][1]
            if outcome[0] != 'enum':
                ck.finding('C10.R1', DEC + 'decap', 'outcome-shape', 'decap: status / error of a return not recognisable')
                continue
            for ov, ofs in outcome[1]:
                nret += 1
                is_pkt = w.store.entails_eq(c, pkt)
                is_buf = w.store.entails_eq(c, blen)
                name = f.variant_name(DS if v == 0 else DERR, ov)
                ck.obligations += 1
                if v == 0:
                    want = 'buf' if name == 'Padding' else 'pkt'
                else:
                    want = None
                    if name in MUST_PKT:
                        want = 'pkt'
                    elif name == 'ErrorSizePduBuffer' and ghost(w, 'acq') is not None:
                        want = 'pkt'          # the storage handed out is too small: the packet itself is well delimited
                good = (want is None and (is_pkt or is_buf)) or (want == 'pkt' and is_pkt) or (want == 'buf' and is_buf)
                ck.sample({'outcome': ('Ok ' if v == 0 else 'Err ') + name, 'consumed': 'packet length' if is_pkt else ('buffer length' if is_buf else c.pretty())})
                if good:
                    ck.discharged += 1
                else:
                    ck.finding('C10.R1', DEC + 'decap', f"consumed:{'Ok' if v == 0 else 'Err'}:{name}",
                               f"decap returning {'Ok' if v == 0 else 'Err'}({name}) consumes {c.pretty()}, expected {'its own packet length (GSE length + 2)' if want == 'pkt' else ('the rest of the buffer' if want == 'buf' else 'the packet length or the buffer length')}")
                # R4: a packet-level outcome is reproducible with the buffer cut right after the packet
                if is_pkt and kind is not None:
                    ck.obligations += 1
                    if w.store.satisfiable_with(le(blen, pkt), le(pkt, blen)):
                        ck.discharged += 1
                    else:
                        ck.finding('C10.R4', DEC + 'decap', f"needs-trailing-bytes:{name}", f"decap returning {name}: this outcome is impossible when the buffer ends with the packet (it depends on bytes that follow)")
    ck.rule('C10.R1 outcomes of decap examined', nret, 20)
    # ---- R5 padding is recognised.  C14.R5 shows that read_gse_header answers None exactly for the padding pattern (S = 0,
    # E = 0, LT = 00).  Here: every frame remainder of two bytes or more is decoded with read_gse_header(be16(buffer[0..2])),
    # and a None answer ends in Ok(Padding) consuming the rest of the frame (and nothing else does).
    hkey = ('be', buf[1], Lin.c(0), 2)
    npad = ndec = 0
    for r in a.events('call'):
        if r.data[1] != RGH:
            continue
        ndec += 1
        arg = r.data[3][0]
        hw = ATOMS.by_key.get(hkey)
        ck.obligations += 1
        if hw is not None and arg[0] == 'int' and r.data[5].store.entails_eq(arg[1], Lin.atom(hw)):
            ck.discharged += 1
        else:
            ck.finding('C10.R5', DEC + 'decap', 'header-word', 'decap does not decode the big-endian word made of the first two bytes of the buffer', r.site)
    for w, rv in a.rets:
        g = ghost(w, 'rgh')
        for v, fs in (ret_alts(rv) or []):
            outcome, c = fs[0][1][0], fs[0][1][1][1]
            names = [f.variant_name(DS if v == 0 else DERR, ov) for ov, _ in outcome[1]] if outcome[0] == 'enum' else ['?']
            is_padding = v == 0 and names == ['Padding']
            ck.obligations += 1
            ok = True
            if g is None:
                # returned without decoding a header: only remainders shorter than two bytes may do that
                if is_padding or not w.store.entails(le(blen, Lin.c(1))):
                    ok = False
                    ck.finding('C10.R5', DEC + 'decap', f"undecoded:{names}", f"decap can return {names} for a remainder of two bytes or more without decoding its header (padding would not be recognised)")
            elif g[0] == 'enum' and len(g[1]) == 1 and g[1][0][0] == 0:
                npad += 1
                if not (is_padding and w.store.entails_eq(c, blen)):
                    ok = False
                    ck.finding('C10.R5', DEC + 'decap', f"padding-outcome:{names}", f"a remainder that starts with the padding pattern ends in {names} consuming {c.pretty()} instead of Ok(Padding) consuming the rest of the frame")
            elif is_padding:
                ok = False
                ck.finding('C10.R5', DEC + 'decap', 'padding-for-packet', 'decap can answer Ok(Padding) for a header that is not the padding pattern')
            if ok:
                ck.discharged += 1
    ck.rule('C10.R5 header decodings of decap', ndec, 1)
    ck.rule('C10.R5 returns of decap after a padding header', npad, 1)
    # ---- R2 every slice of the input buffer read while handling a packet lies inside the packet
    nsl = 0
    for r in a.obligations():
        d = r.data
        if d['okind'] != 'slice-range' or 'of' not in d:
            continue
        base, start, ln = d['of']
        if base.root != buf[1].root or base.path:
            continue
        if short(r.site[0]) == 'decap':
            continue      # the header read of the first two bytes
        lo, hi = d['range']
        W = d['W']
        nsl += 1
        ck.obligations += 1
        end = start + hi
        if W.store.entails(le(end, pkt)):
            ck.discharged += 1
        else:
            ck.finding('C10.R2', r.site[0], f"read-beyond-packet:{d['desc']}", f"{short(r.site[0])}: reads buffer[..{end.pretty()}] which is not shown to lie inside the packet (GSE length + 2)", r.site)
    ck.rule('C10.R2 slices of the input buffer taken by decap_* and the extension walker', nsl, 15)
    # ---- R3 the encapsulator never emits a packet that reads as padding
    nh = 0
    for wname in ('encap', 'encap_frag', 'encap_ext'):
        wa = analyse_writer(ck, ENC + wname, extra=c09.ENCCFG)
        for r in wa.events('call'):
            if r.data[1] != GEN_HDR:
                continue
            nh += 1
            kv = wa.I.read(r.data[5], r.data[3][0][1])
            lv = wa.I.read(r.data[5], r.data[3][1][1])
            kn = set(f.variant_name(PKT, x) for x, _ in kv[1]) if kv[0] == 'enum' else {'?'}
            ln = set(f.variant_name('label::LabelType', x) for x, _ in lv[1]) if lv[0] == 'enum' else {'?'}
            ck.obligations += 1
            if ('IntermediateFragPkt' in kn or '?' in kn) and ('SixBytesLabel' in ln or '?' in ln):
                ck.finding('C10.R3', ENC + wname, 'emits-padding-pattern', f"{wname} can emit start=0, end=0, label type 00: the receiver reads it as padding and drops the rest of the frame", r.site)
            else:
                ck.discharged += 1
    ck.rule('C10.R3 header calls of the emitters', nh, 20)
    # ---- R6 a packet laid in a frame carries its own length: the 12-bit GSE length handed to the header encoder is not
    # truncated and the length reported to the caller is that length + 2 = the bytes written (the C06 rules, on the same analyses)
    from rules import c06
    c06.run(ck, pid_rules='C10.R6')
    ck.assumptions += ['the induction "a walker sees every packet exactly once, in order" follows on paper from R1 (consumed = own length) and R6 (reported length = length on the wire = bytes written)',
                       'single byte reads buffer[2] (fragment id) are covered by the panic obligations of C05 only']
    return ck.finish(
        level='other',
        explanation=('Return-provenance table of decap: for every (Ok status | Err kind) the consumed length is the packet length GSE+2 decoded from '
                     'the first two bytes, or the buffer length, as the walking rule requires (packet-level rejections consume their own length); '
                     'every packet-level outcome stays feasible when the buffer ends right after the packet; every sub-slice of the input taken by '
                     'decap_* and the extension walker ends inside the packet; no emitter passes (intermediate, 6-byte label) to the header encoder.'),
        trusted=['analysis/lin.py'])
