"""C11 — fragmentation always progresses and partitions the PDU exactly."""
from framework import *
from rules import c09

ST = 'gse_encap::EncapStatus'
ERR = 'gse_encap::EncapError'
CF = 'gse_encap::ContextFrag'


def ok_parts(f, rv):
    """[(status name, returned len value, ctx value or None)] for Ok alternatives; [(err name)] for Err"""
    oks, errs = [], []
    for v, fs in (ret_alts(rv) or []):
        if v == 0:
            st = fs[0]
            if st[0] == 'enum':
                for sv, sfs in st[1]:
                    oks.append((f.variant_name(ST, sv), sfs[0], sfs[1] if len(sfs) > 1 else None))
        else:
            e = fs[0]
            if e[0] == 'enum':
                for ev, _ in e[1]:
                    errs.append(f.variant_name(ERR, ev))
    return oks, errs


def ctx_in_world_counts(W, nbytes, i_len, i_fid, frag_id):
    """does world W hold a fragmentation context (an aggregate of three integers whose fragment id is the caller's) whose
    length field equals nbytes?"""
    def walk(v, depth=0):
        if depth > 4:
            return
        if v[0] == 'agg':
            if len(v[1]) == 3 and all(x[0] == 'int' for x in v[1]):
                yield v
            for x in v[1]:
                yield from walk(x, depth + 1)
        elif v[0] == 'enum':
            for _, fs in v[1]:
                for x in fs:
                    yield from walk(x, depth + 1)
    found = False
    for root, v in W.mem.items():
        if root[0] != 'L':
            continue
        for c in walk(v):
            if W.store.entails_eq(c[1][i_fid][1], frag_id):
                found = True
                if not W.store.entails_eq(c[1][i_len][1], nbytes):
                    return False
    return found


def rules(ck, P='C11'):
    f = ck.facts
    i_fid, i_crc, i_len = (field_index(f, CF, n) for n in ('frag_id', 'crc', 'len_pdu_frag'))
    # ------------------------------------------------ continuation calls
    def pdu_fits_total_length(I, w, args, body):
        # quantifier of the property: PDUs that fit the 16-bit total length
        w.store = w.store.add(le(args[param_index(body, 'pdu') - 1][3], Lin.c(65535)))
    a = analyse_writer(ck, ENC + 'encap_frag', tag='c11', extra={'kslots': 6}, premise=pdu_fits_total_length)
    env, rows = writer_rows(ck, a, 'encap_frag')
    B, PL, c = env['B'], env['P'], env['c']
    r = PL - c
    end_possible = [le(r + 7, B), le(r + 5, Lin.c(4095))]
    n_int = n_end = n_err = 0
    for w, rv in a.rets:
        oks, errs = ok_parts(f, rv)
        part = hdr_partition(f, w)
        g = ghost(w, 'hdr_len')
        for sname, rlen, ctx in oks:
            if part is None or g is None:
                ck.finding(f'{P}.R2', ENC + 'encap_frag', 'no-header-ghost', 'encap_frag: Ok return without header call')
                continue
            if part[0] == 'IntermediateFragPkt':
                n_int += 1
                n = g[1] - 1
                ck.obligations += 4
                # R1 progress
                if w.store.entails(le(Lin.c(1), n)):
                    ck.discharged += 1
                else:
                    ck.finding(f'{P}.R1', ENC + 'encap_frag', 'empty-intermediate', 'encap_frag: an intermediate packet may carry no payload byte (the receiver refuses it)')
                # R2 exact advance, id and crc carried over
                if ctx is None or ctx[0] != 'agg':
                    ck.finding(f'{P}.R2', ENC + 'encap_frag', 'ctx-shape', 'encap_frag: returned context not recognisable')
                else:
                    nl = ctx[1][i_len]
                    if nl[0] == 'int' and not has_trunc(nl[1]) and w.store.entails_eq(nl[1], c + n):
                        ck.discharged += 1
                    else:
                        ck.finding(f'{P}.R2', ENC + 'encap_frag', 'advance', f"encap_frag: returned context position {nl[1].pretty() if nl[0]=='int' else '?'} is not old position + payload bytes ({(c + n).pretty()})")
                    if ctx[1][i_fid] == ('int', env['frag_id']) and ctx[1][i_crc] == ('int', env['crc']):
                        ck.discharged += 1
                    else:
                        ck.finding(f'{P}.R2', ENC + 'encap_frag', 'id-crc-changed', 'encap_frag: returned context does not carry the fragment id / CRC of the input context')
                # R3 an intermediate packet is only produced when the end packet is impossible
                if w.store.satisfiable_with(*end_possible):
                    ck.finding(f'{P}.R3', ENC + 'encap_frag', 'intermediate-although-end-fits', 'encap_frag: an intermediate packet can be produced although the final packet would fit the buffer and the 12-bit length')
                else:
                    ck.discharged += 1
                ck.sample({'kind': 'Intermediate', 'payload': n.pretty(), 'new_position': ctx[1][i_len][1].pretty() if ctx and ctx[1][i_len][0] == 'int' else '?'})
            elif part[0] == 'EndFragPkt':
                n_end += 1
                ck.obligations += 1
                if all(w.store.entails(x) for x in end_possible):
                    ck.discharged += 1
                else:
                    ck.finding(f'{P}.R3', ENC + 'encap_frag', 'end-guard', 'encap_frag: the end packet is produced outside its guard (buffer >= remaining + 7 and remaining + 5 <= 4095)')
                ck.sample({'kind': 'End', 'gse_len': g[1].pretty()})
            else:
                ck.finding(f'{P}.R3', ENC + 'encap_frag', f"kind:{part[0]}", f"encap_frag emits a {part[0]} packet")
        for e in errs:
            n_err += 1
            ck.obligations += 1
            if e == 'ErrorSizeBuffer':
                bad = []
                if w.store.satisfiable_with(*end_possible):
                    bad.append('the final packet would fit')
                if w.store.satisfiable_with(le(Lin.c(4), B), le(Lin.c(1), r)):
                    bad.append('at least one payload byte would fit')
                if w.store.satisfiable_with(le(Lin.c(7), B), le(c, PL)):
                    bad.append('the buffer has 7 bytes or more')
                if bad:
                    ck.finding(f'{P}.R3', ENC + 'encap_frag', 'spurious-size-error', f"encap_frag: ErrorSizeBuffer is returned although {' / '.join(bad)}")
                else:
                    ck.discharged += 1
            elif e == 'ErrorPduLength':
                if w.store.satisfiable_with(le(c, PL)):
                    ck.finding(f'{P}.R3', ENC + 'encap_frag', 'spurious-pdu-length-error', 'encap_frag: ErrorPduLength although the context lies inside the PDU')
                else:
                    ck.discharged += 1
            else:
                ck.finding(f'{P}.R3', ENC + 'encap_frag', f"error:{e}", f"encap_frag returns {e}")
    ck.rule('C11 intermediate returns of encap_frag', n_int, 1)
    ck.rule('C11 end returns of encap_frag', n_end, 1)
    ck.rule('C11 error returns of encap_frag', n_err, 2)
    # payload windows (R2/R4): the bytes copied are pdu[c .. c+n)
    npdu = 0
    for row in rows:
        if row['src'][0] == 'pdu':
            npdu += 1
            W = row['W']
            if not W.store.entails_eq(row['src'][1], c) or not W.store.entails_eq(row['src'][2], row['len']) or not W.store.entails(le(c + row['len'], PL)):
                ck.finding(f'{P}.R2', ENC + 'encap_frag', 'payload-window', f"encap_frag: payload is not pdu[position .. position+n) (source starts at {row['src'][1].pretty()})", row['site'])
    ck.rule(f'{P}.R2 payload copies of encap_frag', npdu, 2)
    # ------------------------------------------------ first fragment
    for wname in ('encap', 'encap_ext'):
        b = analyse_writer(ck, ENC + wname, extra=c09.ENCCFG)
        benv, brows = writer_rows(ck, b, wname)
        nf = 0
        for w, rv in b.rets:
            oks, errs = ok_parts(f, rv)
            part = hdr_partition(f, w)
            for sname, rlen, ctx in oks:
                if part and part[0] == 'FirstFragPkt':
                    nf += 1
                    ck.obligations += 2
                    wr = [x for x in brows if x['part'] == part and x['src'][0] == 'pdu']
                    nl = ctx[1][i_len] if ctx is not None and ctx[0] == 'agg' else None
                    if nl is None or nl[0] != 'int' or has_trunc(nl[1]):
                        ck.finding(f'{P}.R2', ENC + wname, 'first-context-truncated', f"{wname}: context of a first fragment went through a lossy cast")
                        continue
                    # the context counts exactly the payload bytes of some pdu copy of this partition
                    if any(w.store.entails_eq(nl[1], x['len']) or x['W'].store.entails_eq(nl[1], x['len']) for x in wr):
                        ck.discharged += 1
                    elif wr and all(ctx_in_world_counts(x['W'], x['len'], i_len, i_fid, benv['frag_id']) for x in wr):
                        # the returned context went through a merge of paths (its field is a join atom here); in every world that
                        # copies payload the context already built there counts exactly the bytes being copied
                        ck.discharged += 1
                    else:
                        ck.finding(f'{P}.R2', ENC + wname, 'first-context', f"{wname}: context of the first fragment ({nl[1].pretty()}) is not the number of payload bytes written")
                    cv = ghost(w, 'crc_val')
                    if ctx[1][i_fid] == ('int', benv['frag_id']) and cv is not None and cv[0] == 'int' and ctx[1][i_crc][0] == 'int' and w.store.entails_eq(ctx[1][i_crc][1], cv[1]):
                        ck.discharged += 1
                    else:
                        ck.finding(f'{P}.R2', ENC + wname, 'first-id-crc', f"{wname}: context of the first fragment does not hold the fragment id passed / the CRC computed")
            for e in errs:
                if e == 'ErrorSizeBuffer' and wname == 'encap':
                    if w.store.satisfiable_with(le(Lin.c(13), benv['B'])):
                        ck.finding(f'{P}.R5', ENC + wname, 'first-threshold', 'encap: ErrorSizeBuffer although the buffer has 13 bytes or more')
        ck.rule(f'{P}.R2 first-fragment returns of {wname}', nf, 3)
    return None


def run(ck):
    rules(ck)
    ck.assumptions += ['premise of the property for continuation calls: the PDU fits the 16-bit total length (len(pdu) <= 65535); with a longer PDU and a hand-made context the u16 position wraps',
                       'the bound "(remaining + 1) calls with buffers of 7 bytes or more" is the paper corollary of R1 (progress), R3 (end as soon as it fits) and R5 (no size error with 7 bytes or more)']
    return ck.finish(
        level='other',
        explanation=('Path summaries of encap_frag over symbolic (buffer length, PDU length, context position): every Ok/Err return is classified by '
                     'packet kind and checked against linear obligations — intermediate packets carry >= 1 byte, advance the context by exactly the '
                     'bytes written and keep id/CRC, are produced only when the end packet cannot be; the end packet is produced exactly under its '
                     'guard; ErrorSizeBuffer only when nothing useful fits (never with 7 bytes or more); payload source windows are pdu[pos..pos+n). '
                     'First fragments of encap / encap_ext: context = payload bytes written, id = parameter, crc = computed CRC.'),
        trusted=['analysis/lin.py entailment / satisfiability (Fourier-Motzkin + integer propagation)'])
