"""C12 — the default CRC is CRC-32/MPEG-2 over total length, protocol type, label, PDU."""
from framework import *
from rules import c09

POLY = 0x04C11DB7
INIT = 0xFFFFFFFF


def spec_table():
    t = []
    for i in range(256):
        c = i << 24
        for _ in range(8):
            c = ((c << 1) ^ POLY) & 0xFFFFFFFF if c & 0x80000000 else (c << 1) & 0xFFFFFFFF
        t.append(c)
    return t


def term_of_closure(body):
    """symbolic term of the fold step: straight-line evaluation of the closure body"""
    env = {}

    def op(o):
        if o['o'] in ('copy', 'move'):
            p = o['place']
            base = env.get(p['local'])
            if base is None:
                # parameters are named by their type, not by their source name: the u32 one is the accumulator, the byte the element
                ts = body.local_ty(p['local']).get('s') if 1 <= p['local'] <= body.arg_count else None
                base = ('local', {'u32': 'acc', '&u8': 'octet', 'u8': 'octet'}.get(ts, body.local_names.get(p['local'], p['local'])))
            for e in p['proj']:
                if e['p'] == 'deref':
                    base = ('deref', base)
                elif e['p'] == 'index':
                    base = ('index', base, env.get(e['local'], ('local', e['local'])))
                else:
                    base = (e['p'], base)
            return base
        if 'int' in o:
            return ('const', int(o['int']))
        if 'item' in o:
            return ('item', o['item'])
        return ('const?', o.get('s'))
    bb = 0
    seen = set()
    while True:
        if bb in seen:
            return None
        seen.add(bb)
        blk = body.blocks[bb]
        for st in blk['stmts']:
            if st['s'] != 'assign':
                continue
            rv = st['rv']
            r = rv['r']
            if r == 'use':
                v = op(rv['op'])
            elif r == 'cast':
                v = ('cast', rv['to']['s'], rv['from']['s'], op(rv['op']))
            elif r == 'binop':
                v = (rv['op'], op(rv['a']), op(rv['b']))
            elif r == 'unop':
                v = (rv['op'], op(rv['a']))
            elif r in ('ref',):
                v = ('ref', op({'o': 'copy', 'place': rv['place']}))
            else:
                v = (r,)
            if st['place']['proj']:
                return None
            env[st['place']['local']] = v
        t = blk['term']
        if t['t'] == 'return':
            return env.get(0)
        if t['t'] in ('goto', 'assert'):
            bb = t['target']
            continue
        return None


def width(t):
    """upper bound of the number of significant bits of a normalised term (None = unknown)"""
    if t[0] == 'const':
        return int(t[1]).bit_length()
    if t[0] == 'local':
        return {'acc': 32, 'octet': 8}.get(t[1])
    if t[0] == 'shr' and t[2][0] == 'const':
        w = width(t[1])
        return None if w is None else max(w - t[2][1], 0)
    if t[0] == 'xor':
        ws = [width(x) for x in t[1]]
        return None if any(w is None for w in ws) else max(ws)
    if t[0] == 'tab':
        return 32
    return None


def norm(t):
    """erase widening casts and derefs of references to bytes, flatten xor"""
    if not isinstance(t, tuple):
        return t
    if t[0] == 'cast':
        widen = {'u8': 8, 'u16': 16, 'u32': 32, 'usize': 64, 'i32': 32, 'u64': 64}
        a, b = widen.get(t[1]), widen.get(t[2])
        inner = norm(t[3])
        if inner[0] == 'const':
            return inner
        if a and b and a >= b:
            return inner
        if a and width(inner) is not None and width(inner) <= a:
            return inner          # narrowing cast of a value that fits: lossless
        return ('cast', t[1], t[2], inner)
    if t[0] == 'deref':
        return norm(t[1])
    if t[0] == 'BitXor':
        parts = []
        for x in (norm(t[1]), norm(t[2])):
            if x[0] == 'xor':
                parts += list(x[1])
            else:
                parts.append(x)
        return ('xor', tuple(sorted(parts, key=repr)))
    if t[0] in ('Shl', 'Shr', 'ShlUnchecked', 'ShrUnchecked'):
        return (t[0][:3].lower(), norm(t[1]), norm(t[2]))
    if t[0] == 'index':
        return ('tab', norm(t[1]), norm(t[2]))
    return tuple(norm(x) if isinstance(x, tuple) else x for x in t)


def run(ck):
    f = ck.facts
    # ---- R1: the table
    c = f.consts.get('crc::CRC_TAB')
    if not c or not isinstance(c.get('alloc'), dict) or not c['alloc'].get('ptrs'):
        raise Tooling('anchor lost: constant crc::CRC_TAB (value not readable)')
    fat = bytes.fromhex(c['alloc']['bytes'])
    n = int.from_bytes(fat[8:16], 'little')
    data = bytes.fromhex(c['alloc']['ptrs'][0]['alloc']['bytes'])
    tab = [int.from_bytes(data[4 * i:4 * i + 4], 'little') for i in range(len(data) // 4)]
    spec = spec_table()
    ck.rule('C12.R1 CRC_TAB entries compared with the polynomial 0x04C11DB7 (MSB first)', len(tab), 256)
    if n != 256 or len(tab) != 256:
        ck.finding('C12.R1', 'crc::CRC_TAB', 'table-size', f"CRC_TAB has {n} entries ({len(tab)} read), expected 256")
    bad = [i for i in range(min(256, len(tab))) if tab[i] != spec[i]]
    ck.obligations += 256
    ck.discharged += 256 - len(bad)
    for i in bad[:4]:
        ck.finding('C12.R1', 'crc::CRC_TAB', f"entry:{i}", f"CRC_TAB[{i}] = {tab[i]:#010x}, CRC-32/MPEG-2 needs {spec[i]:#010x}")
    ck.sample({'CRC_TAB[1]': f"{tab[1]:#010x}", 'CRC_TAB[255]': f"{tab[255]:#010x}", 'spec[255]': f"{spec[255]:#010x}"})
    ci = f.consts.get('gse_standard::CRC_INIT')
    ck.obligations += 1
    if not ci or int(ci.get('bits', -1)) != INIT:
        ck.finding('C12.R4', 'gse_standard::CRC_INIT', 'init', 'CRC_INIT is not 0xFFFFFFFF')
    else:
        ck.discharged += 1
    # ---- R2: the byte step
    try:
        clo = f.bodies['crc::crc32::{closure#0}']
    except KeyError:
        raise Tooling('anchor lost: fold closure of crc::crc32')
    t = term_of_closure(clo)
    got = norm(t) if t else None
    want = ('xor', tuple(sorted([('shl', ('local', 'acc'), ('const', 8)),
                                 ('tab', ('item', 'crc::CRC_TAB'), ('xor', tuple(sorted([('shr', ('local', 'acc'), ('const', 24)), ('local', 'octet')], key=repr))))], key=repr)))
    ck.obligations += 1
    ck.sample({'step term': repr(got)})
    if got == want:
        ck.discharged += 1
    else:
        ck.finding('C12.R2', 'crc::crc32::{closure#0}', 'step', f"the fold step is {got!r}, CRC-32/MPEG-2 (table driven, MSB first) needs (acc << 8) ^ TAB[(acc >> 24) ^ octet]")
    ck.rule('C12.R2 fold step term', 1, 1)
    # its panic sites (index < 256, shift amounts)
    ca = ck.analyse('crc::crc32::{closure#0}', {'kslots': 2})
    nn = ck.count_obligations(ca.obligations(), 'C12.R2')
    ck.rule('C12.R2 panic obligations of the step (index < 256, shifts < 32)', nn, 3 if ck.profile == 'dev' else 1)   # release MIR carries no shift-overflow asserts
    # ---- R3: crc32 = data.iter().fold(crc, step)
    b = f.body('crc::crc32')
    calls = [(blk, blk['term']) for blk in b.blocks if blk['term']['t'] == 'call']
    names = [strip_generics(t['func']['fn'].get('resolved') or t['func']['fn']['name']) for _, t in calls]
    ok3 = names == ['core::slice::iter', '<std::slice::Iter as std::iter::Iterator>::fold']
    if ok3:
        it, fo = calls[0][1], calls[1][1]
        ok3 = (fo['dest'] == {'local': 0, 'proj': []}
               and fo['args'][0]['o'] == 'move' and fo['args'][0]['place'] == it['dest']
               and _is_copy_of_param(b, fo['args'][1], 2)
               and it['args'][0]['o'] in ('move', 'copy') and _reborrow_of_param(b, it['args'][0], 1)
               and not any(st['s'] == 'assign' and st['place'] == {'local': 0, 'proj': []} for blk in b.blocks for st in blk['stmts']))
    ck.obligations += 1
    if ok3:
        ck.discharged += 1
    else:
        ck.finding('C12.R3', 'crc::crc32', 'fold-shape', 'crc32 is not `data.iter().fold(crc, step)` returned unmodified (left fold in slice order, seeded with the parameter)')
    ck.rule('C12.R3 shape of crc32', 1, 1)
    # ---- R4: field order and seed in DefaultCrc::calculate_crc32
    key = '<crc::DefaultCrc as crc::CrcCalculator>::calculate_crc32'
    a = ck.analyse(key, {'kslots': 2, 'no_inline': {'crc::crc32'}})
    evs = [r for r in a.events('call') if r.data[1] == 'crc::crc32']
    ck.rule('C12.R4 crc32 calls in DefaultCrc::calculate_crc32', len(evs), 4)
    names = {r: a.arg(r) for r in ('pdu', 'protocol_type', 'total_length', 'label')}
    want_src = [('be', names['total_length'][1], 2), ('be', names['protocol_type'][1], 2), ('slice', names['label']), ('slice', names['pdu'])]
    prev = None
    ck.obligations += 6
    if len(evs) == 4:
        okc = True
        for i, r in enumerate(evs):
            args = r.data[3]
            W = r.data[5]
            d, seed = args[0], args[1]
            if want_src[i][0] == 'be':
                src = __import__('stdsum').content_of(a.I, W, d)
                good = src[0] == 'arr' and src[1] == ('be', want_src[i][1], want_src[i][2]) and d[2] == Lin.c(0) and d[3] == Lin.c(2)
            else:
                good = d == want_src[i][1]
            if not good:
                okc = False
                ck.finding('C12.R4', key, f"field-order:{i}", f"calculate_crc32: the {i+1}th block fed to crc32 is not {['total_length (big endian)', 'protocol_type (big endian)', 'label', 'pdu'][i]}", r.site)
            if i == 0:
                if seed != ('int', Lin.c(INIT)):
                    okc = False
                    ck.finding('C12.R4', key, 'seed', 'calculate_crc32: the first crc32 call is not seeded with 0xFFFFFFFF', r.site)
            prev_site = r
        # chaining: seed of call i+1 is the result of call i, return value is the last result
        rets = [rv for _, rv in a.rets]
        res_atoms = []
        for r in evs:
            res_atoms.append(None)
        # results are the fresh atoms created for the unknown callee, in call order: recover them from seeds
        seeds = [r.data[3][1] for r in evs]
        chain_ok = all(seeds[i][0] == 'int' and len(seeds[i][1].terms) == 1 and ATOMS.info(seeds[i][1].terms[0][0]).defn and ATOMS.info(seeds[i][1].terms[0][0]).defn[0] == 'call'
                       and ATOMS.info(seeds[i][1].terms[0][0]).defn[2][1] == seeds[i - 1] for i in range(1, 4))
        last_ok = len(rets) == 1 and rets[0][0] == 'int' and len(rets[0][1].terms) == 1 and rets[0][1].const == 0 and \
            ATOMS.info(rets[0][1].terms[0][0]).defn and ATOMS.info(rets[0][1].terms[0][0]).defn[0] == 'call' and ATOMS.info(rets[0][1].terms[0][0]).defn[2][1] == seeds[3]
        if not chain_ok:
            ck.finding('C12.R4', key, 'chain', 'calculate_crc32: the four crc32 calls are not chained (each seeded with the previous result)')
        if not last_ok:
            ck.finding('C12.R4', key, 'result', 'calculate_crc32: the returned value is not the result of the fourth crc32 call unmodified (no final xor, no reflection)')
        if okc and chain_ok and last_ok:
            ck.discharged += 6
    crc_call_sites(ck, 'C12.R5')
    ck.assumptions += ['Iterator::fold over slice::Iter is a left fold in slice order (std documentation)',
                       'the decapsulator side of the argument agreement (decap_end) is rule C03.R3; the trailer position is rules C06.R4 / C03.R3']
    return ck.finish(
        level='proof',
        explanation=('(1) The 256 words of CRC_TAB, read from the constant the compiler evaluated, equal the table generated by the checker from the '
                     'polynomial 0x04C11DB7, MSB first, no reflection. (2) The MIR of the fold closure, evaluated symbolically, is '
                     '(acc << 8) ^ TAB[(acc >> 24) ^ octet]; its index is < 256 and its shifts < 32. (3) crc32 is data.iter().fold(crc, step) returned '
                     'unmodified. (4) DefaultCrc::calculate_crc32 chains four crc32 calls over be(total_length), be(protocol_type), label, pdu, '
                     'seeded with 0xFFFFFFFF, and returns the last result unmodified. (5) encap / encap_ext pass the whole PDU, the protocol type, '
                     'total length = PDU + 2 + written label length and the written label bytes. Together: the function of the statement.'),
        trusted=['const evaluation by rustc (CRC_TAB bytes)', 'summary of Iterator::fold', 'analysis/stdsum.py'],
        checker_cmd='./check C12 --tier quick')


def _is_copy_of_param(b, o, param, depth=0):
    if o['o'] not in ('copy', 'move') or o['place']['proj']:
        return False
    l = o['place']['local']
    if l == param:
        return True
    if depth > 3:
        return False
    for blk in b.blocks:
        for st in blk['stmts']:
            if st['s'] == 'assign' and st['place'] == {'local': l, 'proj': []} and st['rv']['r'] == 'use':
                return _is_copy_of_param(b, st['rv']['op'], param, depth + 1)
    return False


def _reborrow_of_param(b, o, param):
    l = o['place']['local']
    for blk in b.blocks:
        for st in blk['stmts']:
            if st['s'] == 'assign' and st['place'] == {'local': l, 'proj': []} and st['rv']['r'] == 'ref':
                p = st['rv']['place']
                return p['local'] == param and [e['p'] for e in p['proj']] == ['deref']
    return False


def crc_call_sites(ck, P, writers=('encap', 'encap_ext'), floor=8):
    f = ck.facts
    # ---- R5: what the encapsulator passes
    n5 = 0
    for wname in writers:
        w_ = analyse_writer(ck, ENC + wname, extra=c09.ENCCFG)
        env = writer_env(ck, w_, wname)
        for r in w_.events('call'):
            if r.data[2] != 'crc::CrcCalculator::calculate_crc32':
                continue
            n5 += 1
            args, W = r.data[3], r.data[5]
            pdu, pt, tl, lab = args[1], args[2], args[3], args[4]
            part_lt = None
            lt_ = ghost(W, 'hdr_lt')
            if lt_ is not None and lt_[0] == 'enum' and len(lt_[1]) == 1:
                part_lt = f.variant_name('label::LabelType', lt_[1][0][0])
            ck.obligations += 3
            if pdu[0] == 'slice' and pdu[1].root == env['pdu_root'] and W.store.entails_eq(pdu[2], Lin.c(0)) and W.store.entails_eq(pdu[3], env['P']):
                ck.discharged += 1
            else:
                ck.finding(P, ENC + wname, 'crc-pdu', f"{wname}: the CRC is not computed over the whole PDU", r.site)
            if pt == ('int', env['ptype']):
                ck.discharged += 1
            else:
                ck.finding(P, ENC + wname, 'crc-ptype', f"{wname}: the CRC protocol type argument is not the protocol type passed", r.site)
            if part_lt is None:
                ck.finding(P, ENC + wname, 'crc-label-type', f"{wname}: label type unknown at the CRC call", r.site)
            else:
                L = LABEL_LEN[part_lt]
                if tl[0] == 'int' and not has_trunc(tl[1]) and W.store.entails_eq(tl[1], env['P'] + 2 + L) and lab[0] == 'slice' and W.store.entails_eq(lab[3], Lin.c(L)):
                    ck.discharged += 1
                else:
                    ck.finding(P, ENC + wname, f"crc-total-length:{part_lt}", f"{wname} ({part_lt} label): CRC total length / label arguments are not (PDU + 2 + {L}, {L} label bytes)", r.site)
    ck.rule(f'{P} calculate_crc32 call sites of the encapsulator', n5, floor)

