"""C12 — the default CRC is CRC-32/MPEG-2 over total length, protocol type, label, PDU."""
from framework import *
from rules import c09

POLY = 0x04C11DB7
INIT = 0xFFFFFFFF


def spec_table():
    t = []
    for i in range(256):
        c = i << 24
        for _ in range(8):
            c = ((c << 1) ^ POLY) & 0xFFFFFFFF if c & 0x80000000 else (c << 1) & 0xFFFFFFFF
        t.append(c)
    return t


def operand_ty(body, o):
    """type of an operand that is a plain local or a constant (None for anything else)"""
    if o['o'] in ('copy', 'move'):
        return body.local_ty(o['place']['local']) if not o['place']['proj'] else None
    return o.get('ty')


def eval_region(facts, body, start, env, stop=None, special=None, depth=0):
    """symbolic evaluation of a straight-line region of MIR (gotos, asserts and calls to straight-line in-crate functions are
    followed; anything else ends the evaluation with None).  env: local -> term.  Returns env at `stop` (a block index reached
    by a goto) or at the Return terminator."""
    def op(o):
        if o['o'] in ('copy', 'move'):
            p = o['place']
            if special:
                sp = special(p)
                if sp is not None:
                    return sp
            base = env.get(p['local'])
            if base is None:
                # parameters are named by their type, not by their source name: the u32 one is the accumulator, the byte the element
                ts = body.local_ty(p['local']).get('s') if 1 <= p['local'] <= body.arg_count else None
                base = ('local', {'u32': 'acc', '&u8': 'octet', 'u8': 'octet'}.get(ts, body.local_names.get(p['local'], p['local'])))
            for e in p['proj']:
                if e['p'] == 'deref':
                    base = ('deref', base)
                elif e['p'] == 'index':
                    base = ('index', base, env.get(e['local'], ('local', e['local'])))
                elif e['p'] == 'constindex' and isinstance(base, tuple) and base[0] == 'bebytes' and not e.get('from_end') and e['offset'] < base[2]:
                    # byte k of `x.to_be_bytes()` (n bytes, most significant first) is `(x >> 8 * (n - 1 - k)) as u8`
                    sh = 8 * (base[2] - 1 - e['offset'])
                    base = ('cast', 'u8', base[3], ('Shr', base[1], ('const', sh)) if sh else base[1])
                else:
                    base = (e['p'], base)
            return base
        if 'int' in o:
            return ('const', int(o['int']))
        if 'item' in o:
            return ('item', o['item'])
        return ('const?', o.get('s'))
    bb = start
    seen = set()
    while True:
        if bb == stop and seen:
            return env
        if bb in seen:
            return None
        seen.add(bb)
        blk = body.blocks[bb]
        for st in blk['stmts']:
            if st['s'] != 'assign':
                continue
            rv = st['rv']
            r = rv['r']
            if r == 'use':
                v = op(rv['op'])
            elif r == 'cast':
                v = ('cast', rv['to']['s'], rv['from']['s'], op(rv['op']))
            elif r == 'binop':
                v = (rv['op'], op(rv['a']), op(rv['b']))
            elif r == 'unop':
                v = (rv['op'], op(rv['a']))
            elif r in ('ref',):
                v = ('ref', op({'o': 'copy', 'place': rv['place']}))
            else:
                v = (r,)
            if st['place']['proj']:
                return None
            env[st['place']['local']] = v
        t = blk['term']
        if t['t'] == 'return':
            return env
        if t['t'] in ('goto', 'assert'):
            bb = t['target']
            continue
        if t['t'] == 'call' and depth < 3 and 'fn' in t['func'] and t['target'] is not None and not t['dest']['proj']:
            # a straight-line helper of the crate (e.g. a `const fn` holding the byte step): evaluate it on the argument terms
            fnj = t['func']['fn']
            cb = facts.bodies.get(fnj.get('resolved') or fnj['name'])
            dty = body.local_ty(t['dest']['local'])
            if cb is None and strip_generics(fnj.get('resolved') or fnj['name']) == 'core::num::to_be_bytes' and len(t['args']) == 1:
                aty = operand_ty(body, t['args'][0])
                if aty is not None and aty.get('k') == 'int' and not aty.get('signed') and aty.get('bits', 0) in (16, 32, 64):
                    env[t['dest']['local']] = ('bebytes', op(t['args'][0]), aty['bits'] // 8, aty['s'])
                    bb = t['target']
                    continue
            if cb is None and fnj.get('trait') in ('std::convert::From', 'std::convert::Into') and len(t['args']) == 1 and dty.get('k') == 'int':
                aty = operand_ty(body, t['args'][0])
                if aty is not None and aty.get('k') == 'int' and not aty.get('signed') and not dty.get('signed') and aty.get('bits', 0) <= dty.get('bits', 0):
                    # `u32::from(octet)`: the lossless widening an `as` cast between the same two types denotes
                    env[t['dest']['local']] = ('cast', dty['s'], aty['s'], op(t['args'][0]))
                    bb = t['target']
                    continue
            if cb is None or cb.def_kind == 'Closure':
                return None
            cenv = {i + 1: op(a) for i, a in enumerate(t['args'])}
            cres = eval_region(facts, cb, 0, cenv, depth=depth + 1)
            if cres is None or 0 not in cres:
                return None
            env[t['dest']['local']] = cres[0]
            bb = t['target']
            continue
        return None


def term_of_closure(facts, body):
    """symbolic term of the fold step: straight-line evaluation of the closure body"""
    env = eval_region(facts, body, 0, {})
    return env.get(0) if env else None


def loop_form(facts, b):
    """crc32 written as an explicit loop over the bytes of `data`:  acc = crc; for octet in data { acc = STEP(acc, octet) }; acc
    Returns (step term, None) or (None, reason)."""
    heads = sorted(b.loop_heads())
    if len(heads) != 1:
        return None, f"{len(heads)} loops"
    H = heads[0]
    # the loop head asks a slice iterator for the next byte
    blk = b.blocks[H]
    t = blk['term']
    hname = strip_generics(t['func']['fn'].get('resolved') or t['func']['fn']['name']) if t['t'] == 'call' and 'fn' in t['func'] else ''
    if hname == 'core::slice::split_first':
        return split_first_form(facts, b, H)
    if not hname.endswith('Iterator>::next'):
        return None, 'the loop head calls neither Iterator::next nor split_first'
    opt = t['dest']['local']
    # &mut iter: follow the reborrows inside the head block
    it = t['args'][0]['place']['local']
    for _ in range(3):
        for st in blk['stmts']:
            if st['s'] == 'assign' and st['place'] == {'local': it, 'proj': []} and st['rv']['r'] == 'ref':
                it = st['rv']['place']['local']
    sw = b.blocks[t['target']]
    if sw['term']['t'] != 'switch':
        return None, 'no match on the iterator result'
    cases = {int(c[0]): c[1] for c in sw['term']['cases']}
    if 0 not in cases or 1 not in cases:
        return None, 'no None / Some arms'
    b_none, b_some = cases[0], cases[1]
    # the iterator runs over the whole `data` parameter, created before the loop
    data_i = [i for i in range(1, b.arg_count + 1) if b.local_ty(i).get('s') == '&[u8]']
    crc_i = [i for i in range(1, b.arg_count + 1) if b.local_ty(i).get('s') == 'u32']
    if len(data_i) != 1 or len(crc_i) != 1:
        return None, 'parameters'
    loop_blocks = b.reachable_from(b_some, stop=lambda x: x == H) | {H, t['target']}
    made = False
    for pb in b.blocks:
        if pb['i'] in loop_blocks:
            continue
        pt = pb['term']
        if pt['t'] == 'call' and 'fn' in pt['func']:
            nm = strip_generics(pt['func']['fn'].get('resolved') or pt['func']['fn']['name'])
            if nm.endswith('into_iter') or nm == 'core::slice::iter':
                a0 = pt['args'][0]
                if _is_copy_of_param(b, a0, data_i[0]) or _reborrow_of_param(b, a0, data_i[0]):
                    # dest flows into `it`
                    d = pt['dest']['local']
                    if d == it or any(st['s'] == 'assign' and st['place'] == {'local': it, 'proj': []} and st['rv']['r'] == 'use' and st['rv']['op'].get('place', {}).get('local') == d
                                      for blk2 in b.blocks for st in blk2['stmts']):
                        made = True
    if not made:
        return None, 'the iterator is not data.iter() / data.into_iter() of the whole slice'
    # exit: the accumulator is returned unmodified
    xenv = eval_region(facts, b, b_none, {})
    if not xenv or 0 not in xenv or xenv[0][0] != 'local':
        return None, 'the value returned after the loop is not a plain local'
    acc_name = xenv[0][1]
    # (parameters are never named by their source name in these terms - see `op` - so a local shadowing `crc` is not ambiguous)
    acc = [i for i in range(b.arg_count + 1, len(b.locals)) if (b.local_names.get(i, i) == acc_name or i == acc_name) and b.local_ty(i).get('s') == 'u32']
    if acc_name == 'acc' and not acc:
        acc = crc_i            # the parameter itself (`mut crc`) is the accumulator
    if len(acc) != 1:
        return None, 'accumulator local not identified'
    A = acc[0]
    # seeded with the parameter
    if A != crc_i[0]:
        seeded = any(st['s'] == 'assign' and st['place'] == {'local': A, 'proj': []} and st['rv']['r'] == 'use' and _is_copy_of_param(b, st['rv']['op'], crc_i[0])
                     for pb in b.blocks if pb['i'] not in loop_blocks for st in pb['stmts'])
        if not seeded:
            return None, 'the accumulator is not seeded with the crc parameter'
    # one iteration: straight line from the Some arm back to the head

    def special(p):
        if p['local'] == opt and [e['p'] for e in p['proj']][:2] == ['downcast', 'field']:
            return ('local', 'octet')
        return None
    benv = eval_region(facts, b, b_some, {A: ('local', 'acc')}, stop=H, special=special)
    if not benv or A not in benv:
        return None, 'the loop body is not a straight line that assigns the accumulator'
    # the iterator is only advanced by the head
    for lb in loop_blocks:
        if lb == H:
            continue
        for st in b.blocks[lb]['stmts']:
            if st['s'] == 'assign' and st['rv']['r'] == 'ref' and st['rv']['place']['local'] == it:
                return None, 'the iterator is touched inside the loop body'
    return benv[A], None


def split_first_form(facts, b, H):
    """crc32 written as  `let mut acc = crc; let mut rest = data; while let Some((octet, tail)) = rest.split_first()
    { acc = STEP(acc, *octet); rest = tail }; acc`"""
    blk = b.blocks[H]
    t = blk['term']
    opt = t['dest']['local']
    cur = t['args'][0]['place']['local']
    for st in blk['stmts']:
        if st['s'] == 'assign' and st['place'] == {'local': cur, 'proj': []} and st['rv']['r'] == 'ref':
            cur = st['rv']['place']['local']
    sw = b.blocks[t['target']]
    if sw['term']['t'] != 'switch':
        return None, 'no match on the split_first result'
    cases = {int(c[0]): c[1] for c in sw['term']['cases']}
    b_some = cases.get(1)
    b_none = cases.get(0, sw['term']['otherwise'])
    if b_some is None:
        return None, 'no Some arm'
    data_i = [i for i in range(1, b.arg_count + 1) if b.local_ty(i).get('s') == '&[u8]']
    crc_i = [i for i in range(1, b.arg_count + 1) if b.local_ty(i).get('s') == 'u32']
    if len(data_i) != 1 or len(crc_i) != 1:
        return None, 'parameters'
    loop_blocks = b.reachable_from(b_some, stop=lambda x: x == H) | {H, t['target']}
    # the remaining slice starts as the whole `data`
    if cur != data_i[0]:
        seeded = any(st['s'] == 'assign' and st['place'] == {'local': cur, 'proj': []} and st['rv']['r'] == 'use' and _is_copy_of_param(b, st['rv']['op'], data_i[0])
                     for pb in b.blocks if pb['i'] not in loop_blocks for st in pb['stmts'])
        if not seeded:
            return None, 'the remaining slice does not start as the whole data'
    xenv = eval_region(facts, b, b_none, {})
    if not xenv or 0 not in xenv or xenv[0][0] != 'local':
        return None, 'the value returned after the loop is not a plain local'
    acc = [i for i in range(len(b.locals)) if (b.local_names.get(i, i) == xenv[0][1] or i == xenv[0][1]) and b.local_ty(i).get('s') == 'u32']
    if xenv[0][1] == 'acc' and not acc:
        acc = crc_i
    if len(acc) != 1:
        return None, 'accumulator local not identified'
    A = acc[0]
    if A != crc_i[0]:
        if not any(st['s'] == 'assign' and st['place'] == {'local': A, 'proj': []} and st['rv']['r'] == 'use' and _is_copy_of_param(b, st['rv']['op'], crc_i[0])
                   for pb in b.blocks if pb['i'] not in loop_blocks for st in pb['stmts']):
            return None, 'the accumulator is not seeded with the crc parameter'

    def special(p):
        pr = [e['p'] for e in p['proj']]
        if p['local'] == opt and pr[:2] == ['downcast', 'field'] and len(pr) >= 3 and p['proj'][2].get('i') == 0:
            return ('local', 'octet')
        if p['local'] == opt and pr[:2] == ['downcast', 'field'] and len(pr) >= 3 and p['proj'][2].get('i') == 1:
            return ('local', '$tail')
        return None
    benv = eval_region(facts, b, b_some, {A: ('local', 'acc')}, stop=H, special=special)
    if not benv or A not in benv:
        return None, 'the loop body is not a straight line that assigns the accumulator'
    # the remaining slice advances by exactly one byte: rest = tail
    nxt = benv.get(cur)
    while isinstance(nxt, tuple) and nxt and nxt[0] in ('ref', 'deref'):
        nxt = nxt[1]
    if nxt != ('local', '$tail'):
        return None, 'the remaining slice is not replaced by the tail of split_first'
    return benv[A], None


def width(t):
    """upper bound of the number of significant bits of a normalised term (None = unknown)"""
    if t[0] == 'const':
        return int(t[1]).bit_length()
    if t[0] == 'local':
        return {'acc': 32, 'octet': 8}.get(t[1])
    if t[0] == 'shr' and t[2][0] == 'const':
        w = width(t[1])
        return None if w is None else max(w - t[2][1], 0)
    if t[0] == 'xor':
        ws = [width(x) for x in t[1]]
        return None if any(w is None for w in ws) else max(ws)
    if t[0] == 'tab':
        return 32
    return None


def norm(t):
    """erase widening casts and derefs of references to bytes, flatten xor"""
    if not isinstance(t, tuple):
        return t
    if t[0] == 'cast':
        widen = {'u8': 8, 'u16': 16, 'u32': 32, 'usize': 64, 'i32': 32, 'u64': 64}
        a, b = widen.get(t[1]), widen.get(t[2])
        inner = norm(t[3])
        if inner[0] == 'const':
            return inner
        if a and b and a >= b:
            return inner
        if a and width(inner) is not None and width(inner) <= a:
            return inner          # narrowing cast of a value that fits: lossless
        return ('cast', t[1], t[2], inner)
    if t[0] == 'deref':
        return norm(t[1])
    if t[0] == 'BitXor':
        parts = []
        for x in (norm(t[1]), norm(t[2])):
            if x[0] == 'xor':
                parts += list(x[1])
            else:
                parts.append(x)
        return ('xor', tuple(sorted(parts, key=repr)))
    if t[0] in ('Shl', 'Shr', 'ShlUnchecked', 'ShrUnchecked'):
        return (t[0][:3].lower(), norm(t[1]), norm(t[2]))
    if t[0] == 'index':
        return ('tab', norm(t[1]), norm(t[2]))
    return tuple(norm(x) if isinstance(x, tuple) else x for x in t)


def run(ck):
    f = ck.facts
    # ---- R1: the table
    c = f.consts.get('crc::CRC_TAB')
    if not c or not isinstance(c.get('alloc'), dict):
        raise Tooling('anchor lost: constant crc::CRC_TAB (value not readable)')
    # the table may be declared `&[u32]` (fat pointer to the data), `&[u32; 256]` (thin pointer) or `[u32; 256]` (the data itself)
    tyk = c.get('ty', {})
    if c['alloc'].get('ptrs'):
        data = bytes.fromhex(c['alloc']['ptrs'][0]['alloc']['bytes'])
        fat = bytes.fromhex(c['alloc']['bytes'])
        n = int.from_bytes(fat[8:16], 'little') if len(fat) >= 16 else len(data) // 4
    elif tyk.get('k') == 'array':
        data = bytes.fromhex(c['alloc']['bytes'])
        n = tyk.get('len')
    else:
        raise Tooling('anchor lost: constant crc::CRC_TAB (value not readable)')
    tab = [int.from_bytes(data[4 * i:4 * i + 4], 'little') for i in range(len(data) // 4)]
    spec = spec_table()
    ck.rule('C12.R1 CRC_TAB entries compared with the polynomial 0x04C11DB7 (MSB first)', len(tab), 256)
    if n != 256 or len(tab) != 256:
        ck.finding('C12.R1', 'crc::CRC_TAB', 'table-size', f"CRC_TAB has {n} entries ({len(tab)} read), expected 256")
    bad = [i for i in range(min(256, len(tab))) if tab[i] != spec[i]]
    ck.obligations += 256
    ck.discharged += 256 - len(bad)
    for i in bad[:4]:
        ck.finding('C12.R1', 'crc::CRC_TAB', f"entry:{i}", f"CRC_TAB[{i}] = {tab[i]:#010x}, CRC-32/MPEG-2 needs {spec[i]:#010x}")
    ck.sample({'CRC_TAB[1]': f"{tab[1]:#010x}", 'CRC_TAB[255]': f"{tab[255]:#010x}", 'spec[255]': f"{spec[255]:#010x}"})
    ci = f.consts.get('gse_standard::CRC_INIT')
    ck.obligations += 1
    if not ci or int(ci.get('bits', -1)) != INIT:
        ck.finding('C12.R4', 'gse_standard::CRC_INIT', 'init', 'CRC_INIT is not 0xFFFFFFFF')
    else:
        ck.discharged += 1
    # ---- R2: the byte step.  Two idioms are understood: `data.iter().fold(crc, |acc, octet| STEP)` and the explicit loop
    # `let mut acc = crc; for octet in data { acc = STEP }; acc`; STEP may sit in a straight-line helper function.
    b = f.body('crc::crc32')
    clo = f.bodies.get('crc::crc32::{closure#0}')
    form = None
    t = None
    if clo is not None:
        form = 'fold'
        t = term_of_closure(f, clo)
    else:
        t, why = loop_form(f, b)
        form = 'loop'
        if t is None:
            raise Tooling(f"anchor lost: crc::crc32 is neither a fold over data.iter() nor a plain loop over the bytes of data ({why})")
    got = norm(t) if t else None
    want = ('xor', tuple(sorted([('shl', ('local', 'acc'), ('const', 8)),
                                 ('tab', ('item', 'crc::CRC_TAB'), ('xor', tuple(sorted([('shr', ('local', 'acc'), ('const', 24)), ('local', 'octet')], key=repr))))], key=repr)))
    ck.obligations += 1
    ck.sample({'step term': repr(got), 'form': form})
    if got == want:
        ck.discharged += 1
    else:
        ck.finding('C12.R2', 'crc::crc32', 'step', f"the byte step is {got!r}, CRC-32/MPEG-2 (table driven, MSB first) needs (acc << 8) ^ TAB[(acc >> 24) ^ octet]")
    ck.rule('C12.R2 fold step term', 1, 1)
    # its panic sites (index < 256, shift amounts)
    ca = ck.analyse('crc::crc32::{closure#0}' if form == 'fold' else 'crc::crc32', {'kslots': 2})
    nn = ck.count_obligations(ca.obligations(), 'C12.R2')
    ck.panic_rule('C12.R2 panic obligations of the step (index < 256, shifts < 32)', nn, [ca], 2)
    # ---- R3: crc32 = data.iter().fold(crc, step)   (for the loop form the shape was established by loop_form above)
    ok3 = form == 'loop'
    if form == 'fold':
        calls = [(blk, blk['term']) for blk in b.blocks if blk['term']['t'] == 'call']
        names = [strip_generics(t_['func']['fn'].get('resolved') or t_['func']['fn']['name']) for _, t_ in calls]
        ok3 = names == ['core::slice::iter', '<std::slice::Iter as std::iter::Iterator>::fold']
        if ok3:
            it, fo = calls[0][1], calls[1][1]
            ok3 = (fo['dest'] == {'local': 0, 'proj': []}
                   and fo['args'][0]['o'] == 'move' and fo['args'][0]['place'] == it['dest']
                   and _is_copy_of_param(b, fo['args'][1], 2)
                   and it['args'][0]['o'] in ('move', 'copy') and _reborrow_of_param(b, it['args'][0], 1)
                   and not any(st['s'] == 'assign' and st['place'] == {'local': 0, 'proj': []} for blk in b.blocks for st in blk['stmts']))
    ck.obligations += 1
    if ok3:
        ck.discharged += 1
    else:
        ck.finding('C12.R3', 'crc::crc32', 'fold-shape', 'crc32 is not `data.iter().fold(crc, step)` returned unmodified (left fold in slice order, seeded with the parameter)')
    ck.rule('C12.R3 shape of crc32', 1, 1)
    # ---- R4: field order and seed in DefaultCrc::calculate_crc32
    key = '<crc::DefaultCrc as crc::CrcCalculator>::calculate_crc32'
    a = ck.analyse(key, {'kslots': 2, 'no_inline': {'crc::crc32'}, 'pure_calls': {'crc::crc32'}})      # crc32 reads its two arguments only (R2/R3) and calculate_crc32 writes no memory
    evs = [r for r in a.events('call') if r.data[1] == 'crc::crc32']
    ck.rule('C12.R4 crc32 calls in DefaultCrc::calculate_crc32', len(evs), 4)
    names = {r: a.arg(r) for r in ('pdu', 'protocol_type', 'total_length', 'label')}
    want_src = [('be', names['total_length'][1], 2), ('be', names['protocol_type'][1], 2), ('slice', names['label']), ('slice', names['pdu'])]
    prev = None
    ck.obligations += 6
    if len(evs) == 4:
        # call order: the call seeded with the constant first, then the call seeded with the result of the previous one (the four
        # calls may be one call site executed four times, `for part in [a, b, c, d] { crc = crc32(part, crc) }`)
        def seeded_by(r_, p_):
            sd = r_.data[3][1]
            if sd[0] != 'int' or len(sd[1].terms) != 1 or sd[1].const != 0:
                return False
            dfn = ATOMS.info(sd[1].terms[0][0]).defn
            return bool(dfn) and dfn[0] == 'call' and tuple(dfn[2]) == tuple(p_.data[3])
        first = [r_ for r_ in evs if r_.data[3][1][0] == 'int' and r_.data[3][1][1].is_const()]
        if len(first) == 1:
            order_, rest_ = [first[0]], [r_ for r_ in evs if r_ is not first[0]]
            while rest_:
                nxt = [r_ for r_ in rest_ if seeded_by(r_, order_[-1])]
                if len(nxt) != 1:
                    break
                order_.append(nxt[0])
                rest_.remove(nxt[0])
            if not rest_:
                evs = order_
        okc = True
        for i, r in enumerate(evs):
            args = r.data[3]
            W = r.data[5]
            d, seed = args[0], args[1]
            if want_src[i][0] == 'be':
                src = __import__('stdsum').content_of(a.I, W, d)
                good = src[0] == 'arr' and src[1] == ('be', want_src[i][1], want_src[i][2]) and d[2] == Lin.c(0) and d[3] == Lin.c(2)
            else:
                good = d == want_src[i][1]
            if not good:
                okc = False
                ck.finding('C12.R4', key, f"field-order:{i}", f"calculate_crc32: the {i+1}th block fed to crc32 is not {['total_length (big endian)', 'protocol_type (big endian)', 'label', 'pdu'][i]}", r.site)
            if i == 0:
                if seed != ('int', Lin.c(INIT)):
                    okc = False
                    ck.finding('C12.R4', key, 'seed', 'calculate_crc32: the first crc32 call is not seeded with 0xFFFFFFFF', r.site)
            prev_site = r
        # chaining: seed of call i+1 is the result of call i, return value is the last result
        rets = [rv for _, rv in a.rets]
        res_atoms = []
        for r in evs:
            res_atoms.append(None)
        # results are the fresh atoms created for the unknown callee, in call order: recover them from seeds
        seeds = [r.data[3][1] for r in evs]
        chain_ok = all(seeds[i][0] == 'int' and len(seeds[i][1].terms) == 1 and ATOMS.info(seeds[i][1].terms[0][0]).defn and ATOMS.info(seeds[i][1].terms[0][0]).defn[0] == 'call'
                       and ATOMS.info(seeds[i][1].terms[0][0]).defn[2][1] == seeds[i - 1] for i in range(1, 4))
        last_ok = len(rets) == 1 and rets[0][0] == 'int' and len(rets[0][1].terms) == 1 and rets[0][1].const == 0 and \
            ATOMS.info(rets[0][1].terms[0][0]).defn and ATOMS.info(rets[0][1].terms[0][0]).defn[0] == 'call' and ATOMS.info(rets[0][1].terms[0][0]).defn[2][1] == seeds[3]
        if not chain_ok:
            ck.finding('C12.R4', key, 'chain', 'calculate_crc32: the four crc32 calls are not chained (each seeded with the previous result)')
        if not last_ok:
            ck.finding('C12.R4', key, 'result', 'calculate_crc32: the returned value is not the result of the fourth crc32 call unmodified (no final xor, no reflection)')
        if okc and chain_ok and last_ok:
            ck.discharged += 6
    crc_call_sites(ck, 'C12.R5')
    # ---- R6: "... and the value the decapsulator recomputes, with an empty label after a re-use first fragment": the receiver
    # rules of C03 (CRC arguments at the recomputation, equality with the trailer established before delivery) evaluated here
    from rules import c03
    c03.rules(ck, P='C12.R6')
    ck.assumptions += ['Iterator::fold over slice::Iter is a left fold in slice order (std documentation)',
                       'the trailer position on the sender side is rule C06.R4']
    return ck.finish(
        level='proof',
        explanation=('(1) The 256 words of CRC_TAB, read from the constant the compiler evaluated, equal the table generated by the checker from the '
                     'polynomial 0x04C11DB7, MSB first, no reflection. (2) The MIR of the fold closure, evaluated symbolically, is '
                     '(acc << 8) ^ TAB[(acc >> 24) ^ octet]; its index is < 256 and its shifts < 32. (3) crc32 is data.iter().fold(crc, step) returned '
                     'unmodified. (4) DefaultCrc::calculate_crc32 chains four crc32 calls over be(total_length), be(protocol_type), label, pdu, '
                     'seeded with 0xFFFFFFFF, and returns the last result unmodified. (5) encap / encap_ext pass the whole PDU, the protocol type, '
                     'total length = PDU + 2 + written label length and the written label bytes. Together: the function of the statement.'),
        trusted=['const evaluation by rustc (CRC_TAB bytes)', 'summary of Iterator::fold', 'analysis/stdsum.py'],
        checker_cmd='./check C12 --tier quick')


def _is_copy_of_param(b, o, param, depth=0):
    if o['o'] not in ('copy', 'move') or o['place']['proj']:
        return False
    l = o['place']['local']
    if l == param:
        return True
    if depth > 3:
        return False
    for blk in b.blocks:
        for st in blk['stmts']:
            if st['s'] == 'assign' and st['place'] == {'local': l, 'proj': []} and st['rv']['r'] == 'use':
                return _is_copy_of_param(b, st['rv']['op'], param, depth + 1)
    return False


def _reborrow_of_param(b, o, param):
    l = o['place']['local']
    for blk in b.blocks:
        for st in blk['stmts']:
            if st['s'] == 'assign' and st['place'] == {'local': l, 'proj': []} and st['rv']['r'] == 'ref':
                p = st['rv']['place']
                return p['local'] == param and [e['p'] for e in p['proj']] == ['deref']
    return False


def crc_call_sites(ck, P, writers=('encap', 'encap_ext'), floor=8):
    f = ck.facts
    # ---- R5: what the encapsulator passes
    n5 = 0
    for wname in writers:
        w_ = analyse_writer(ck, ENC + wname, extra=c09.ENCCFG)
        env = writer_env(ck, w_, wname)
        for r in w_.events('call'):
            if r.data[2] != 'crc::CrcCalculator::calculate_crc32':
                continue
            n5 += 1
            args, W = r.data[3], r.data[5]
            pdu, pt, tl, lab = args[1], args[2], args[3], args[4]
            part_lt = None
            lt_ = ghost(W, 'hdr_lt')
            if lt_ is not None and lt_[0] == 'enum' and len(lt_[1]) == 1:
                part_lt = f.variant_name('label::LabelType', lt_[1][0][0])
            ck.obligations += 3
            if pdu[0] == 'slice' and pdu[1].root == env['pdu_root'] and W.store.entails_eq(pdu[2], Lin.c(0)) and W.store.entails_eq(pdu[3], env['P']):
                ck.discharged += 1
            else:
                ck.finding(P, ENC + wname, 'crc-pdu', f"{wname}: the CRC is not computed over the whole PDU", r.site)
            if pt == ('int', env['ptype']):
                ck.discharged += 1
            else:
                ck.finding(P, ENC + wname, 'crc-ptype', f"{wname}: the CRC protocol type argument is not the protocol type passed", r.site)
            if part_lt is None:
                ck.finding(P, ENC + wname, 'crc-label-type', f"{wname}: label type unknown at the CRC call", r.site)
            else:
                L = LABEL_LEN[part_lt]
                if tl[0] == 'int' and not has_trunc(tl[1]) and W.store.entails_eq(tl[1], env['P'] + 2 + L) and lab[0] == 'slice' and W.store.entails_eq(lab[3], Lin.c(L)):
                    ck.discharged += 1
                else:
                    ck.finding(P, ENC + wname, f"crc-total-length:{part_lt}", f"{wname} ({part_lt} label): CRC total length / label arguments are not (PDU + 2 + {L}, {L} label bytes)", r.site)
    ck.rule(f'{P} calculate_crc32 call sites of the encapsulator', n5, floor)

