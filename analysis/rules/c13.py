"""C13 — extension-header chains; unknown mandatory extensions cause a drop (claimed in part)."""
import os
from framework import *
FLOOR_R1 = 10
from rules import c06, c09, c03

EXT = 'header_extension::Extension'
EXTD = 'header_extension::ExtensionData'
NERR = 'header_extension::NewExtensionError'
MHE = 'header_extension::MandatoryHeaderExt'
MGR = 'header_extension::MandatoryHeaderExtensionManager::is_mandatory_header_id_known'
HLEN_SPEC = {1: 0, 2: 2, 3: 4, 4: 6, 5: 8}           # IETF RFC 5163 / ETSI TS 102 606: H-LEN -> data bytes
DATA_LEN = {'Data2': 2, 'Data4': 4, 'Data6': 6, 'Data8': 8, 'NoData': 0}
DERR = 'gse_decap::DecapError'


def run(ck):
    f = ck.facts
    # ------------------------------------------------------------------ R1 constructor contract
    a = ck.analyse(EXT + '::new', {'kslots': 32})
    n = ck.count_obligations(a.obligations(), 'C13.R1')
    ck.panic_rule('C13.R1 panic obligations of Extension::new (unreachable!, expect)', n, [a], FLOOR_R1)
    idv = a.args[0][1]
    dlen = a.args[1][3]
    i_data = field_index(f, EXT, 'data')
    nret = 0
    for w, rv in a.rets:
        for v, fs in (ret_alts(rv) or []):
            nret += 1
            ck.obligations += 1
            good = False
            if v == 1:
                en = f.variant_name(NERR, fs[0][1][0][0]) if fs[0][0] == 'enum' and len(fs[0][1]) == 1 else '?'
                if en == 'IncorrectExtensionId':
                    good = w.store.entails(le(Lin.c(0x600), idv))
                    what = 'IncorrectExtensionId only for id >= 0x0600'
                elif en == 'IdAndVecSizeNotMatchingError':
                    good = w.store.entails(le(Lin.c(0x100), idv)) and w.store.entails(lt(idv, Lin.c(0x600))) and not size_may_match(w, idv, dlen)
                    what = 'IdAndVecSizeNotMatchingError only for an optional id whose H-LEN size differs from the data length'
                else:
                    what = f"unexpected error {en}"
                desc = f"Err({en})"
            else:
                ext = fs[0]
                dv = ext[1][i_data] if ext[0] == 'agg' else None
                if dv is None or dv[0] != 'enum' or len(dv[1]) != 1:
                    what = 'Ok with a single data variant'
                    desc = 'Ok(?)'
                else:
                    vn = f.variant_name(EXTD, dv[1][0][0])
                    desc = f"Ok({vn})"
                    if vn == 'MandatoryData':
                        good = w.store.entails(lt(idv, Lin.c(0x100)))
                        what = 'MandatoryData only for id < 0x0100'
                    else:
                        N = DATA_LEN[vn]
                        h = N // 2 + 1
                        good = (w.store.entails(le(Lin.c(256 * h), idv)) and w.store.entails(lt(idv, Lin.c(256 * (h + 1)))) and w.store.entails_eq(dlen, Lin.c(N)))
                        what = f"{vn} only for H-LEN {h} (id in {256*h:#06x}..{256*(h+1)-1:#06x}) and {N} data bytes"
                    if ext[1][field_index(f, EXT, 'id')] != ('int', idv):
                        good = False
                        what += '; id stored as given'
            ck.sample({'Extension::new returns': desc, 'contract': what, 'holds': good})
            if good:
                ck.discharged += 1
            else:
                ck.finding('C13.R1', EXT + '::new', f"contract:{desc}", f"Extension::new returning {desc}: not shown that {what}")
    ck.rule('C13.R1 return paths of Extension::new', nret, 8)
    # ------------------------------------------------------------------ R2 one H-LEN table
    h = ck.analyse('header_extension::optionnal_extension_data_size_from_hlen', {'kslots': 16})
    hv = h.args[0][1]
    seen = {}
    for w, rv in h.rets:
        for v, fs in (ret_alts(rv) or []):
            lo, hi = w.store.bounds(hv)
            if v == 0:
                # whatever the shape (one arm per row, a range arm with arithmetic, a table lookup): for every H-LEN value that
                # can reach this return, the size returned for that value is decided by the store
                if lo is None or hi is None or hi - lo > 255 or fs[0][0] != 'int':
                    ck.finding('C13.R2', h.key, 'table-shape', 'optionnal_extension_data_size_from_hlen: an Ok return does not bound its H-LEN argument')
                    continue
                for x in range(lo, hi + 1):
                    if not w.store.satisfiable_with(le(hv, Lin.c(x)), le(Lin.c(x), hv)) or known_ne(w, hv, x):
                        continue
                    slo, shi = w.store.add_eq(hv, Lin.c(x)).bounds(fs[0][1])
                    if slo is not None and slo == shi and x not in seen:
                        seen[x] = slo
                    elif seen.get(x) != slo or slo != shi:
                        seen[x] = None
                        ck.finding('C13.R2', h.key, f"table-shape:{x}", f"optionnal_extension_data_size_from_hlen({x}): the returned size is not a single value")
            else:
                for x in HLEN_SPEC:
                    if w.store.satisfiable_with(le(hv, Lin.c(x)), le(Lin.c(x), hv)) and not known_ne(w, hv, x):
                        ck.finding('C13.R2', h.key, f"table-missing:{x}", f"optionnal_extension_data_size_from_hlen({x}) can return Err")
    ck.obligations += 5
    for x, s in HLEN_SPEC.items():
        if seen.get(x) == s:
            ck.discharged += 1
        else:
            ck.finding('C13.R2', h.key, f"table:{x}", f"H-LEN {x} maps to {seen.get(x)} data bytes, the standard says {s}")
    for x in seen:
        if x not in HLEN_SPEC:
            ck.finding('C13.R2', h.key, f"table-extra:{x}", f"H-LEN {x} is accepted as an optional extension size")
    ck.rule('C13.R2 rows of the H-LEN table', len(seen), 5)
    ln = ck.analyse(EXT + '::len', {'kslots': 16})
    selfv = ln.I.read(ln.w0, ln.args[0][1])
    nl = 0
    for w, rv in ln.rets:
        dv = ln.I.read(w, ln.args[0][1])[1][i_data]
        if dv[0] != 'enum' or len(dv[1]) != 1 or rv[0] != 'int':
            ck.finding('C13.R2', ln.key, 'len-shape', 'Extension::len: a return does not correspond to one data variant')
            continue
        nl += 1
        vn = f.variant_name(EXTD, dv[1][0][0])
        ck.obligations += 1
        if vn == 'MandatoryData':
            vec = dv[1][0][1][0]
            good = vec[0] == 'vec' and w.store.entails_eq(rv[1], ln.I.seq_len(w, vec[1]) + 2)
        else:
            good = w.store.entails_eq(rv[1], Lin.c(DATA_LEN[vn] + 2))
        if good:
            ck.discharged += 1
        else:
            ck.finding('C13.R2', ln.key, f"len:{vn}", f"Extension::len for {vn} is not data length + 2")
    ck.rule('C13.R2 variants of Extension::len', nl, 6)
    # ------------------------------------------------------------------ R3 lengths of encap_ext (C06 instances)
    c06.run(ck, writers=('encap_ext',), pid_rules='C13.R3', floors=(8, 4, 20))
    # the total length / CRC arguments of a fragmented extension-bearing PDU are those the receiver recomputes (C03.R2/R3)
    from rules import c12
    c12.crc_call_sites(ck, 'C13.R3', writers=('encap_ext',), floor=4)
    # ------------------------------------------------------------------ R4 only decodable combinations are accepted
    wa = analyse_writer(ck, ENC + 'encap_ext', extra=c09.ENCCFG)
    env = writer_env(ck, wa, 'encap_ext')
    ext_arg = wa.arg('extensions')
    i_id = field_index(f, EXT, 'id')
    n4 = 0
    for r in wa.events('call'):
        if r.data[1] != GEN_HDR:
            continue
        W = r.data[5]
        n4 += 1
        ck.obligations += 1
        pt = env['ptype']
        # a packet is only built for a decodable combination: either the protocol type is a real one (>= 0x0600, written
        # after the chain), or it is the id (< 0x0100) of the final mandatory extension that ends the chain in its place
        if W.store.entails(le(Lin.c(0x600), pt)):
            good = True
        else:
            last = last_ext_id(wa, W, ext_arg, i_id)
            good = W.store.entails(lt(pt, Lin.c(0x100))) and last is not None and W.store.entails_eq(last, pt)
        if good:
            ck.discharged += 1
        else:
            ck.finding('C13.R4', ENC + 'encap_ext', 'undecodable', 'encap_ext builds a packet although the protocol type is neither >= 0x0600 nor (< 0x0100 and equal to the id of the last extension, which then ends the chain in its place)', r.site)
    ck.rule('C13.R4 header calls of encap_ext', n4, 8)
    # ------------------------------------------------------------------ R5 unknown mandatory extension: whole packet dropped at its own length, nothing acquired
    unk = variant_index(f, MHE, 'Unknown')

    def force_unknown(I, w, frame, site, args, res):
        w.mem[('G', 'asked')] = ('enum', ((1, ()),))
        return ('enum', ((unk, ()),))

    def acquired(I, w, frame, site, args, rv):
        w.mem[('G', 'acq')] = ('enum', ((1, ()),))
    d = ck.analyse(DEC + 'decap', decap_cfg(f, {'call_hooks': c03.kind_hooks(), 'trait_result_hooks': {MGR: force_unknown},
                                                'ret_hooks': {TRAIT_MEM + 'new_pdu': acquired, TRAIT_MEM + 'new_frag': acquired, TRAIT_MEM + 'take_frag': acquired}}), tag='c13-unknown')
    gse = c03.ghost_gse_len(d, None)
    n5 = 0
    for w, rv in d.rets:
        if ghost(w, 'asked') is None:
            continue
        for v, fs in (ret_alts(rv) or []):
            n5 += 1
            ck.obligations += 1
            tup = fs[0]
            names = [f.variant_name(DERR, x) for x, _ in tup[1][0][1]] if v == 1 and tup[1][0][0] == 'enum' else ['Ok']
            good = v == 1 and names == ['ErrorUnkownMandatoryHeader'] and gse is not None and w.store.entails_eq(tup[1][1][1], gse + 2) and ghost(w, 'acq') is None
            if good:
                ck.discharged += 1
            else:
                ck.finding('C13.R5', DEC + 'decap', f"unknown-mandatory:{names}", f"a packet with a mandatory extension unknown to the receiver ends in {names} (acquired storage: {ghost(w, 'acq') is not None}); expected Err(ErrorUnkownMandatoryHeader) consuming exactly the packet, with no storage taken")
    ck.rule('C13.R5 returns of decap after the manager answered Unknown', n5, 2)
    # ------------------------------------------------------------------ R6 the walker reads the extension area as one contiguous prefix
    # Every window of the extension area the walker looks at (extension data, next extension id) starts where the previous one
    # ended, the first at offset 0, and the length it reports is the end of the last window: no byte is skipped, read twice, or
    # left to the payload by mistake.  (Which size each extension has is R2 / the manager; this is the offset bookkeeping.)
    WALK = walker_key(f)
    wbody = f.body(WALK)
    area_i = param_index(wbody, 'pdu')
    st_adt = [t for t in f.adts if t.endswith('IterateOverExtensionHeaderStatus')]
    if not st_adt:
        raise Tooling('anchor lost: IterateOverExtensionHeaderStatus')
    i_hlen = field_index(f, st_adt[0], 'header_ext_len')
    holder = {}

    def start_walk(I, w, args):
        holder['root'] = args[area_i - 1][1].root
        w.mem[('G', '~rd_end')] = ('int', Lin.c(0))

    def on_slice(I, w, frame, site, base, lo, hi):
        if base.root != holder.get('root') or base.path:
            return
        prev = w.mem.get(('G', '~rd_end'))
        holder['n'] = holder.get('n', 0) + 1
        if prev is None or prev[0] != 'int' or not w.store.entails_eq(prev[1], lo):
            w.mem[('G', 'rd_gap')] = ('enum', ((1, ()),))
            holder.setdefault('gaps', []).append((site, lo.pretty(), prev[1].pretty() if prev and prev[0] == 'int' else '?'))
        w.mem[('G', '~rd_end')] = ('int', hi)
    wk = ck.analyse(WALK, {'kslots': 8, 'slice_hook': on_slice}, assume=start_walk, tag='c13-walk')
    n6 = 0
    for w, rv in wk.rets:
        for v, fs in (ret_alts(rv) or []):
            if v != 0:
                continue
            n6 += 1
            ck.obligations += 1
            st = fs[0]
            end = w.mem.get(('G', '~rd_end'))
            good = st[0] == 'agg' and st[1][i_hlen][0] == 'int' and end is not None and end[0] == 'int' and \
                w.store.entails_eq(st[1][i_hlen][1], end[1]) and ghost(w, 'rd_gap') is None
            if good:
                ck.discharged += 1
            elif ghost(w, 'rd_gap') is not None:
                ck.finding('C13.R6', WALK, 'gap', 'the extension walker reads a window of the extension area that does not start where the previous one ended (bytes skipped or read twice)')
            else:
                ck.finding('C13.R6', WALK, 'reported-length', f"the extension walker reports {st[1][i_hlen][1].pretty() if st[0] == 'agg' and st[1][i_hlen][0] == 'int' else '?'} bytes of extension area, but the last window it read ends at {end[1].pretty() if end and end[0] == 'int' else '?'}: the payload would start inside / beyond the extension area")
    if os.environ.get('VERIF_DEBUG'):
        print('GAPS', holder.get('gaps'))
    ck.rule('C13.R6 Ok returns of the extension walker', n6, 1)
    ck.rule('C13.R6 windows of the extension area read by the walker', holder.get('n', 0), 3)
    # ------------------------------------------------------------------ R9 the walker refuses a chain only for a window that is really missing
    # Two scenarios on the walker alone, the manager's answer restricted to one variant and its announced size `s` kept symbolic:
    #  (final)     every answer is Final(s) and the area holds the s data bytes (area >= read so far + s): a final mandatory
    #              extension ends the chain in place of the protocol type, nothing may be demanded after its data - every
    #              return after the answer is Ok;
    #  (non-final) every answer is NonFinal(s) and the area holds the data and the type field that follows (area >= read so far
    #              + s + 2): a refusal is only possible once everything up to that point has been read (it then concerns a
    #              later window), and any refusal is BufferTooSmall.
    fin_i, nonfin_i = variant_index(f, MHE, 'Final'), variant_index(f, MHE, 'NonFinal')
    xerr = [t for t in f.adts if t.endswith('ExtensionHeaderError')]
    n9 = 0
    for scen, keep, extra in (('final', fin_i, 0), ('non-final', nonfin_i, 2)):
        h9 = {}

        def start9(I, w, args, _h=h9):
            _h['root'] = args[area_i - 1][1].root
            _h['len'] = args[area_i - 1][3]
            w.mem[('G', '~rd_end')] = ('int', Lin.c(0))

        def slice9(I, w, frame, site, base, lo, hi, _h=h9):
            if base.root != _h.get('root') or base.path:
                return
            w.mem[('G', '~rd_end')] = ('int', hi)
            cov = w.mem.get(('G', '~cover'))
            if cov is not None and cov[0] == 'int' and w.store.entails_eq(hi, cov[1]):
                w.mem.pop(('G', 'owed'), None)        # everything the scenario guarantees has been read

        def answer9(I, w, frame, site, args, res, _h=h9, _keep=keep, _extra=extra):
            if res[0] != 'enum':
                return None
            alts = tuple(a for a in res[1] if a[0] == _keep)
            if len(alts) != 1 or len(alts[0][1]) != 1 or alts[0][1][0][0] != 'int':
                _h['lost'] = True
                return None
            size = alts[0][1][0][1]
            end = w.mem.get(('G', '~rd_end'))
            if end is None or end[0] != 'int':
                _h['lost'] = True
                return None
            cover = end[1] + size + _extra
            w.store = w.store.add(le(cover, _h['len']))
            w.mem[('G', '~cover')] = ('int', cover)
            w.mem[('G', 'owed')] = ('enum', ((1, ()),))
            _h['asked'] = _h.get('asked', 0) + 1
            return ('enum', alts)
        w9 = ck.analyse(WALK, {'kslots': 8, 'slice_hook': slice9, 'trait_result_hooks': {MGR: answer9}}, assume=start9, tag='c13-refuse-' + scen)
        if h9.get('lost') or not h9.get('asked'):
            raise Tooling(f"anchor lost: C13.R9 ({scen}) the manager's answer / the area read so far could not be followed in the extension walker")
        for w, rv in w9.rets:
            cov = w.mem.get(('G', '~cover'))
            if cov is None:
                continue          # no mandatory extension met on this path
            for v, fs in (ret_alts(rv) or []):
                n9 += 1
                ck.obligations += 1
                end = w.mem.get(('G', '~rd_end'))
                if v == 0:
                    ck.discharged += 1
                    continue
                if scen == 'final':
                    ck.finding('C13.R9', WALK, 'refused:final', 'the extension walker refuses a chain ending in a known final mandatory extension although the extension area holds the announced data bytes (nothing follows a final mandatory extension: no type field may be demanded)')
                elif ghost(w, 'owed') is None or (end is not None and end[0] == 'int' and cov[0] == 'int' and w.store.entails(le(cov[1], end[1]))):
                    ck.discharged += 1
                else:
                    ck.finding('C13.R9', WALK, 'refused:non-final', 'the extension walker refuses a chain at a known non-final mandatory extension although the extension area holds its announced data bytes and the 2-byte type field that follows' + (f" [read so far {end[1].pretty() if end and end[0] == 'int' else '?'}, present {cov[1].pretty() if cov[0] == 'int' else '?'}]" if os.environ.get('VERIF_DEBUG_R9') else ''))
    ck.rule('C13.R9 returns of the extension walker after a known mandatory extension whose bytes are present (final / non-final scenario)', n9, 3)
    # (optional) the chain starts with an optional extension of H-LEN class h = 1..5 (id in [0x100 h, 0x100 h + 0xFF]) and the area
    # holds its 2 (h - 1) data bytes and the type field that follows: no refusal before those bytes are read.
    ids16 = [i for i in range(1, wbody.arg_count + 1) if wbody.local_ty(i).get('s') == 'u16']
    if len(ids16) != 1:
        raise Tooling('anchor lost: C13.R9 the first extension id parameter of the extension walker')
    n9o = 0
    for h in (1, 2, 3, 4, 5):
        ho = {}

        def start9o(I, w, args, _h=ho, _hl=h):
            _h['root'] = args[area_i - 1][1].root
            idv = args[ids16[0] - 1]
            cover = Lin.c(2 * (_hl - 1) + 2)
            if idv[0] != 'int':
                _h['lost'] = True
                return
            w.store = w.store.add(le(Lin.c(0x100 * _hl), idv[1])).add(le(idv[1], Lin.c(0x100 * _hl + 0xFF))).add(le(cover, args[area_i - 1][3]))
            w.mem[('G', '~rd_end')] = ('int', Lin.c(0))
            w.mem[('G', '~cover')] = ('int', cover)
            w.mem[('G', 'owed')] = ('enum', ((1, ()),))

        def slice9o(I, w, frame, site, base, lo, hi, _h=ho):
            if base.root != _h.get('root') or base.path:
                return
            w.mem[('G', '~rd_end')] = ('int', hi)
            cov = w.mem.get(('G', '~cover'))
            if cov is not None and cov[0] == 'int' and w.store.entails_eq(hi, cov[1]):
                w.mem.pop(('G', 'owed'), None)
        wo = ck.analyse(WALK, {'kslots': 8, 'slice_hook': slice9o}, assume=start9o, tag=f"c13-refuse-optional-{h}")
        if ho.get('lost'):
            raise Tooling('anchor lost: C13.R9 (optional) the first extension id of the extension walker is not an integer parameter')
        for w, rv in wo.rets:
            for v, fs in (ret_alts(rv) or []):
                n9o += 1
                ck.obligations += 1
                if v == 0 or ghost(w, 'owed') is None:
                    ck.discharged += 1
                else:
                    ck.finding('C13.R9', WALK, f"refused:optional:{h}", f"the extension walker refuses a chain at a leading optional extension of H-LEN {h} although the extension area holds its {2 * (h - 1)} data bytes and the 2-byte type field that follows")
    ck.rule('C13.R9 returns of the extension walker for a leading optional extension whose bytes are present (H-LEN 1..5)', n9o, 5)
    # ------------------------------------------------------------------ R8 chains of one, two and three extensions, exactly
    bounded_chain_rules(ck)      # (also run by c06.run for encap_ext, on the same cached analyses)
    # ------------------------------------------------------------------ R7 bundled managers
    sm = ck.analyse('<header_extension::SimpleMandatoryExtensionHeaderManager as header_extension::MandatoryHeaderExtensionManager>::is_mandatory_header_id_known', {'kslots': 8})
    for w, rv in sm.rets:
        if not (rv[0] == 'enum' and [x for x, _ in rv[1]] == [unk]):
            ck.finding('C13.R7', sm.key, 'simple-manager', 'SimpleMandatoryExtensionHeaderManager knows an extension')
    sg = ck.analyse('<header_extension::SignalisationMandatoryExtensionHeaderManager as header_extension::MandatoryHeaderExtensionManager>::is_mandatory_header_id_known', {'kslots': 8})
    fin = variant_index(f, MHE, 'Final')
    idp = sg.args[1][1]
    known = set()
    for w, rv in sg.rets:
        for x, pl in rv[1]:
            if x == unk:
                for kid in (0x81, 0x82):
                    if w.store.satisfiable_with(le(idp, Lin.c(kid)), le(Lin.c(kid), idp)) and not known_ne(w, idp, kid):
                        ck.finding('C13.R7', sg.key, f"signalisation-unknown:{kid:#x}", f"the signalisation manager does not know {kid:#06x}")
            elif x == fin:
                lo, hi = w.store.bounds(idp)
                ids = [k_ for k_ in range(lo, hi + 1) if not known_ne(w, idp, k_)] if lo is not None and hi is not None and hi - lo < 64 else None
                if ids and all(k_ in (0x81, 0x82) for k_ in ids) and pl[0] == ('int', Lin.c(0)):
                    known.update(ids)
                else:
                    ck.finding('C13.R7', sg.key, 'signalisation-final', f"the signalisation manager answers Final for ids {lo}..{hi} / size {pl[0]}")
            else:
                ck.finding('C13.R7', sg.key, 'signalisation-nonfinal', 'the signalisation manager answers NonFinal')
    ck.rule('C13.R7 ids known by the signalisation manager', len(known), 2)
    ck.assumptions += ['chains of ANY length: the bytes written by encap_ext form gap-free runs (adjacent writes coalesce, overlaps are reported at the write) and the walker reads contiguously (R6); that the run ends at the returned length, and that no write leaves the buffer, relates two loops over the extension list - decided exactly for chains of 1, 2 and 3 extensions (R8: both loops unrolled, one symbolic data length per extension), declined and listed beyond that',
                       'R8 takes Extension::len(e) = data length of e + 2 as the definition of the per-extension measure; R2 checks on the same run that the function has exactly that table',
                       'equality of the recovered extension list follows on paper from R8 (sender layout for short chains), R6 (receiver reads the same windows contiguously), R1/R2 (one H-LEN table on both sides) and, for mandatory extensions, the manager announcing the size that was sent (assumption on the user-supplied manager)',
                       'receivers with partially knowing managers are covered only through R5 (Unknown at any point of the chain drops the packet)',
                       'R9 judges the optional arm of the walker on the leading extension only (H-LEN classes 1..5), the mandatory arms at every answer of the manager']
    return ck.finish(
        level='other',
        explanation=('Decided clauses of C13: (R1) path summaries of Extension::new against the constructor contract (Ok iff id < 0x600 and, for optional '
                     'ids, data length = H-LEN table; no reachable panic); (R2) one H-LEN table in the size function, Extension::len and the standard; '
                     '(R3) GSE length / returned length / header fields of encap_ext as in C06; (R4) encap_ext builds a packet with the final-mandatory '
                     'flag only when protocol type < 0x100 equals the last extension id, otherwise protocol type >= 0x600; (R5) when the manager answers '
                     'Unknown decap returns ErrorUnkownMandatoryHeader consuming exactly the packet before any storage is taken; (R6) the receiver reads the '
                     'extension area as contiguous windows and reports their total; (R7) tables of the two bundled managers; (R8) for chains of 1, 2 and 3 '
                     'extensions, with one symbolic data length per extension: no panic and nothing declined in encap_ext, the bytes written tile [0, returned '
                     'length) exactly, and every id, data block, the displaced protocol type and the PDU sit at the offsets the standard gives; (R9) the walker, with '
                     'the manager restricted to Final(s) resp. NonFinal(s) and the announced bytes (s resp. s + 2) assumed present at the answer, never '
                     'refuses after a Final answer and never refuses before the guaranteed bytes are read after a NonFinal answer; likewise for a leading optional '
                     'extension of each H-LEN class with its data and the following type field present.'),
        trusted=['analysis/stdsum.py'])


def bounded_chain_rules(ck, ns=(1, 2, 3), pid='C13.R8', parts=('panic', 'tiling', 'layout')):
    """encap_ext re-analysed with the extension list pinned to n = 1, 2, 3 elements: both loops over the list unroll, every
    extension keeps a symbolic data length (a *measure* of the element: `Extension::len` is data length + 2 by R2, and a
    match on the data variant pins the measure to that variant's payload length), so that nothing has to be declined:
    no panic, the bytes written tile [0, returned length) exactly, in every world.  The general analysis (any n) shows the
    same facts up to the relation between the two loops; this one closes that relation for short chains."""
    f = ck.facts
    i_data = field_index(f, EXT, 'data')

    def ext_len(I, w, frame, site, args):
        r = args[0]
        if r[0] != 'ref':
            return None
        cell = r[1]
        dv = I.read(w, cell.ext(('f', i_data)))
        if dv[0] == 'enum' and len(dv[1]) == 1:
            return None                      # variant known on this path: interpret the body
        key = ('dl', cell.root, cell.path)
        at = ATOMS.by_key.get(key)
        if at is None:
            at = ATOMS.fresh(f"datalen({w.name_of(cell.root)}{''.join('[' + e[1].pretty() + ']' for e in cell.path if e[0] == 'i')})", 0, 1 << 40, defn=key, key=key)
        return [(w, ('int', Lin.atom(at) + 2))]

    def on_refine(I, w, loc, new):
        if not loc.path or loc.path[-1] != ('f', i_data) or len(new[1]) != 1:
            return
        at = ATOMS.by_key.get(('dl', loc.root, loc.path[:-1]))
        if at is None:
            return
        var, fs = new[1][0]
        if not fs:
            n = Lin.c(0)
        else:
            pv = I.read(w, loc.ext(('d', var), ('f', 0)))       # materialises the payload in place (its identity is kept)
            if pv[0] == 'arr':
                n = Lin.c(pv[1])
            elif pv[0] == 'vec':
                n = I.seq_len(w, pv[1])
            else:
                return
        w.store = w.store.add_eq(Lin.atom(at), n)

    nret = nob = nlay = 0
    for n in ns:
        def pin(I, w, args, body, _n=n):
            ev = args[param_index(body, 'extensions') - 1]
            if ev[0] != 'vec':
                raise Tooling('anchor lost: encap_ext does not take the extension list by value')
            v = w.mem[ev[1]]
            w.store = w.store.add_eq(v[1], Lin.c(_n))
            w.mem[ev[1]] = ('seq', Lin.c(_n)) + tuple(v[2:])
        a = analyse_writer(ck, ENC + 'encap_ext', tag=f"c13-chain{n}", extra=dict(c09.ENCCFG, call_override={EXT + '::len': ext_len}, refine_hook=on_refine, relational_all=bool(int(os.environ.get('VERIF_RELALL', '0')))), premise=pin)
        seen = set()
        for r in (a.obligations() if 'panic' in parts else ()):
            d = r.data
            ck.obligations += 1
            nob += 1
            if d['ok']:
                ck.discharged += 1
                continue
            key = f"chain{n}|{d['okind']}|{d['desc']}"
            if key in seen:
                continue
            seen.add(key)
            ck.finding(pid, r.site[0], key, f"encap_ext with {n} extension(s): cannot show `{d['desc']}` ({d['okind']})" + (' [declined in the general analysis]' if d.get('declined') else ''), r.site,
                       {'needs': d.get('needs'), 'state': d.get('state')})
        for r in (a.events('write_overlap') if 'tiling' in parts else ()):
            ck.finding(pid, ENC + 'encap_ext', f"chain{n}|overlap", f"encap_ext with {n} extension(s): a write is neither adjacent to nor disjoint from an earlier one", r.site)
        # layout of the extension area (ETSI TS 102 606, 4.2.3): [header][frag id, total length]? [id 0][label][data 0][id 1][data 1]..
        # [data n-1][protocol type unless the last extension is the final mandatory one][PDU]
        env, rows = writer_rows(ck, a, 'encap_ext')
        if 'layout' not in parts:
            rows = []
        ext_arg = a.arg('extensions')
        i_id = field_index(f, EXT, 'id')
        for row in rows:
            W, part = row['W'], row['part']
            if part is None:
                continue
            A = 2 + (3 if part[0] == 'FirstFragPkt' else 0)
            L = LABEL_LEN[part[1]]
            dls = []
            for k in range(n):
                at = ATOMS.by_key.get(('dl', ext_arg[1], (('i', Lin.c(k)),)))
                dls.append(Lin.atom(at) if at is not None else None)
            if any(x is None for x in dls):
                ck.finding(pid, ENC + 'encap_ext', f"chain{n}|measure", f"encap_ext with {n} extension(s): the length of an extension is not taken through Extension::len")
                break

            def before(k):
                t = Lin.c(0)
                for j in range(k):
                    t = t + dls[j] + 2
                return t
            src = row['raw']
            want = what = None
            for k in range(n):
                cell = Loc(ext_arg[1], (('i', Lin.c(k)),))
                idv = a.I.read(W, cell.ext(('f', i_id)))
                if src[0] == 'arr' and src[1][0] == 'be' and src[1][2] == 2 and idv[0] == 'int' and src[1][1] == idv[1]:
                    want, wl, what = (Lin.c(A) if k == 0 else before(k) + (A + L)), Lin.c(2), f"id of extension {k}"
                    break
                sloc = src[4] if src[0] == 'arr' and len(src) > 4 else None
                if isinstance(sloc, Loc) and sloc.root == ext_arg[1] and sloc.path[:2] == (('i', Lin.c(k)), ('f', i_data)):
                    want, wl, what = before(k) + (A + 2 + L), dls[k], f"data of extension {k}"
                    break
                if src[0] == 'seq':
                    dv = a.I.read(W, cell.ext(('f', i_data)))
                    pv = dv[1][0][1][0] if dv[0] == 'enum' and len(dv[1]) == 1 and dv[1][0][1] else None
                    if pv is not None and pv[0] == 'vec' and pv[1] == src[1].root and not src[1].path:
                        want, wl, what = before(k) + (A + 2 + L), dls[k], f"data of extension {k}"
                        break
            if want is None and row['src'][0] in ('ptype', 'pdu'):
                fm = W.store.entails(lt(env['ptype'], Lin.c(0x100)))
                nf = W.store.entails(le(Lin.c(0x100), env['ptype']))
                if row['src'][0] == 'ptype' and nf:
                    want, wl, what = before(n) + (A + L), Lin.c(2), 'protocol type after the chain'
                elif row['src'][0] == 'pdu' and (fm or nf):
                    want, wl, what = before(n) + (A + L + (2 if nf else 0)), None, 'PDU after the chain'
            if want is None:
                continue
            nlay += 1
            ck.obligations += 1
            if W.store.entails_eq(row['start'], want) and (wl is None or W.store.entails_eq(row['len'], wl)):
                ck.discharged += 1
            else:
                ck.finding(pid, ENC + 'encap_ext', f"chain{n}|layout|{part[0]}|{what}", f"encap_ext with {n} extension(s) ({part[0]}, {part[1]}): {what} written at [{row['start'].pretty()}, +{row['len'].pretty()}), the standard places it at {want.pretty()}" + (f" with length {wl.pretty()}" if wl is not None else ''), row['site'])
        for w, rv in (a.rets if 'tiling' in parts else ()):
            for v, fs in (ret_alts(rv) or []):
                if v != 0:
                    continue
                nret += 1
                ck.obligations += 1
                st = fs[0]
                rlen = st[1][0][1][0] if st[0] == 'enum' and len(st[1]) == 1 and st[1][0][1] and st[1][0][1][0][0] == 'int' else None
                wr = ghost(w, 'writes')
                ivs = [(x[1][0][1], x[1][1][1]) for x in wr[1]] if wr is not None and wr[0] == 'agg' else None
                if rlen is None or ivs is None:
                    ck.finding(pid, ENC + 'encap_ext', f"chain{n}|shape", f"encap_ext with {n} extension(s): returned length or written intervals not recognisable")
                    continue
                total = Lin.c(0)
                ok = True
                for i, (s1, l1) in enumerate(ivs):
                    total = total + l1
                    for (s2, l2) in ivs[i + 1:]:
                        if not (w.store.entails(le(s1 + l1, s2)) or w.store.entails(le(s2 + l2, s1))):
                            ok = False
                lo = [s1 for s1, _ in ivs if w.store.entails_eq(s1, Lin.c(0))]
                if ok and lo and w.store.entails_eq(total, rlen[1]):
                    ck.discharged += 1
                else:
                    ck.finding(pid, ENC + 'encap_ext', f"chain{n}|extent", f"encap_ext with {n} extension(s): the bytes written ({' + '.join(f'[{a_.pretty()}, +{b_.pretty()})' for a_, b_ in ivs)}) are not exactly [0, returned length {rlen[1].pretty()})")
    if 'tiling' in parts:
        ck.rule(f'{pid} Ok returns of encap_ext with 1, 2, 3 extensions (bytes written = [0, returned length))', nret, 6)
    if 'panic' in parts:
        ck.rule(f'{pid} obligations of encap_ext with 1, 2, 3 extensions (none declined)', nob, 300)
    if 'layout' in parts:
        ck.rule(f'{pid} writes of the extension area placed (ids, data, protocol type, PDU; chains of 1, 2, 3)', nlay, 60)


def size_may_match(w, idv, dlen):
    """can data length equal the H-LEN size of the id on this path?"""
    for hl, size in HLEN_SPEC.items():
        if feasible_with(w, le(Lin.c(256 * hl), idv), lt(idv, Lin.c(256 * (hl + 1))), le(dlen, Lin.c(size)), le(Lin.c(size), dlen)):
            if not known_ne(w, dlen, size):
                return True
    return False


def last_ext_id(wa, W, ext_arg, i_id):
    if ext_arg[0] != 'vec':
        return None
    sv = W.mem.get(ext_arg[1])
    if sv is None or sv[0] != 'seq':
        return None
    for idx, cv in sv[3]:
        if W.store.entails_eq(idx, sv[1] - 1) and cv[0] == 'agg' and cv[1][i_id][0] == 'int':
            return cv[1][i_id][1]
    return None
