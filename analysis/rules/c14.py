"""C14 — the 16-bit fixed header codec is a bijection on non-padding headers."""
from framework import *

PKT = 'pkt_type::PktType'
LT = 'label::LabelType'
# ETSI TS 102 606 clause 4.2.1: S (bit 15), E (bit 14), LT (bits 13-12), GSE length (bits 11-0)
SPEC_KIND = {'CompletePkt': 0xC000, 'FirstFragPkt': 0x8000, 'EndFragPkt': 0x4000, 'IntermediateFragPkt': 0x0000}
SPEC_LT = {'SixBytesLabel': 0x0000, 'ThreeBytesLabel': 0x1000, 'Broadcast': 0x2000, 'ReUse': 0x3000}


def run(ck):
    f = ck.facts
    kinds = {v['name']: v['idx'] for v in f.adts[PKT]['variants']}
    lts = {v['name']: v['idx'] for v in f.adts[LT]['variants']}
    if set(kinds) != set(SPEC_KIND) or set(lts) != set(SPEC_LT):
        raise Tooling('anchor lost: PktType / LabelType variants changed')
    # ---- R1: masks and constants of gse_standard
    need = {'START_END_MASK': 0xC000, 'LABEL_TYPE_MASK': 0x3000, 'GSE_LEN_MASK': 0x0FFF, 'GSE_LEN_MAX': 0xFFF}
    nconst = 0
    for n, v in need.items():
        c = f.consts.get('gse_standard::' + n)
        if c is None or 'bits' not in c:
            raise Tooling(f'anchor lost: constant gse_standard::{n}')
        nconst += 1
        ck.obligations += 1
        if int(c['bits']) != v:
            ck.finding('C14.R1', 'gse_standard::' + n, f"const:{n}", f"gse_standard::{n} is {int(c['bits']):#x}, the header layout needs {v:#x}")
        else:
            ck.discharged += 1
    ck.rule('C14.R1 mask constants', nconst, 4)
    # ---- R2: encoder, one run per (kind, label type)
    nenc = 0
    table = {}
    for kn, kv in kinds.items():
        for ln, lv in lts.items():
            def fix(I, w, args, _kv=kv, _lv=lv):
                I.write(w, args[0][1], ('enum', ((_kv, ()),)))
                I.write(w, args[1][1], ('enum', ((_lv, ()),)))
            a = ck.analyse(GEN_HDR, {'kslots': 4}, assume=fix, tag=f"{kn}/{ln}")
            g = a.args[2][1]
            K = SPEC_KIND[kn] | SPEC_LT[ln]
            for w, rv in a.rets:
                nenc += 1
                ck.obligations += 2
                if rv[0] != 'int':
                    ck.finding('C14.R2', GEN_HDR, f"enc-shape:{kn}:{ln}", 'generate_gse_header: result not an integer expression')
                    continue
                # for GSE lengths that fit 12 bits the header is K + length
                w1 = w.fork()
                w1.store = w1.store.add(le(g, Lin.c(4095)))
                if w1.store.entails_eq(rv[1], Lin.c(K) + g):
                    ck.discharged += 1
                else:
                    ck.finding('C14.R2', GEN_HDR, f"enc:{kn}:{ln}", f"generate_gse_header({kn}, {ln}, g<=4095) is not {K:#06x} + g")
                # and in general only the low 12 bits of the length are used
                lo, hi = w.store.bounds(rv[1] - Lin.c(K))
                if lo == 0 and hi == 4095:
                    ck.discharged += 1
                else:
                    ck.finding('C14.R2', GEN_HDR, f"enc-range:{kn}:{ln}", f"generate_gse_header({kn}, {ln}, g): header - {K:#06x} ranges over [{lo},{hi}], expected [0,4095]")
                table[(kn, ln)] = K
            n = ck.count_obligations(a.obligations(), 'C14.R4')
    ck.rule('C14.R2 encoder cells (kind x label type)', nenc, 16)
    if len(set(table.values())) != len(table):
        ck.finding('C14.R2', GEN_HDR, 'enc-not-injective', 'two (kind, label type) pairs share the same header bits')
    # ---- R3/R5: decoder
    d = ck.analyse('gse_decap::read_gse_header', {'kslots': 64})
    ck.count_obligations(d.obligations(), 'C14.R4')
    x = d.args[0][1]
    ndec = nnone = 0
    seen = set()
    for w, rv in d.rets:
        for v, fs in rv[1]:
            if v == 0:
                nnone += 1
                ck.obligations += 1
                if w.store.entails(le(x, Lin.c(0x0FFF))):
                    ck.discharged += 1
                else:
                    ck.finding('C14.R5', 'gse_decap::read_gse_header', 'none-outside-padding', 'read_gse_header returns None for a header whose top nibble is not 0000')
                continue
            tup = fs[0]
            gl, kv, lv = tup[1][0], tup[1][1], tup[1][2]
            if kv[0] != 'enum' or lv[0] != 'enum' or len(kv[1]) != 1 or len(lv[1]) != 1 or gl[0] != 'int':
                ck.finding('C14.R3', 'gse_decap::read_gse_header', 'dec-shape', 'read_gse_header: a Some return is not a single (kind, label type) cell')
                continue
            kn, ln = f.variant_name(PKT, kv[1][0][0]), f.variant_name(LT, lv[1][0][0])
            ndec += 1
            seen.add((kn, ln))
            K = SPEC_KIND[kn] | SPEC_LT[ln]
            ck.obligations += 2
            if w.store.entails_eq(x, Lin.c(K) + gl[1]) and w.store.entails(le(gl[1], Lin.c(4095))) and w.store.entails(le(Lin.c(0), gl[1])):
                ck.discharged += 1
            else:
                ck.finding('C14.R3', 'gse_decap::read_gse_header', f"dec:{kn}:{ln}", f"read_gse_header: the ({kn}, {ln}) return does not satisfy header == {K:#06x} + gse_len with gse_len <= 4095")
            if (kn, ln) == ('IntermediateFragPkt', 'SixBytesLabel'):
                ck.finding('C14.R5', 'gse_decap::read_gse_header', 'padding-decoded', 'read_gse_header returns Some for the padding pattern (start=0, end=0, label type 00)')
            else:
                ck.discharged += 1
            ck.sample({'decoder cell': f"{kn}/{ln}", 'header': f"{K:#06x} + gse_len", 'gse_len': gl[1].pretty()})
    missing = [(k, l) for k in SPEC_KIND for l in SPEC_LT if (k, l) not in seen and (k, l) != ('IntermediateFragPkt', 'SixBytesLabel')]
    for m in missing:
        ck.finding('C14.R3', 'gse_decap::read_gse_header', f"dec-missing:{m}", f"read_gse_header never returns the cell {m}")
    ck.rule('C14.R3 decoder cells', ndec, 15)
    ck.rule('C14.R5 None returns of read_gse_header', nnone, 1)
    ck.assumptions += ['soundness of the abstract interpreter: the return partitions of read_gse_header cover all 65536 header values (no value is dropped; the two unreachable!() arms are proof obligations of rule R4)']
    return ck.finish(
        level='proof',
        explanation=('Finite closed argument: generate_gse_header is evaluated abstractly once per (kind, label type) cell and shown to return '
                     'K(kind,lt) + gse_len for gse_len <= 4095 with K = S/E/LT bits of ETSI TS 102 606 (and K + (gse_len mod 4096) in general); '
                     'read_gse_header is evaluated on a symbolic 16-bit word: each of its 15 Some partitions satisfies word = K(kind,lt) + gse_len, '
                     '0 <= gse_len <= 4095, the None partition satisfies word <= 0x0FFF, both unreachable!() arms are dead. K is injective with '
                     'multiples of 4096, hence decode(encode(k,l,g)) = (k,l,g) and encode(decode(w)) = w for every non-padding w.'),
        trusted=['rustc MIR construction', 'bit decomposition x = 2^e*h + 2^s*q + l used for masks and shifts (analysis/absint.py:decompose_bits)', 'analysis/lin.py entailment'],
        checker_cmd='./check C14 --tier quick')
