"""C15 — label re-use policy bounds are respected (per-path obligations of an inductive invariant)."""
from framework import *

ENCAPS = 'gse_encap::Encapsulator'
LABEL = 'label::Label'


class Cells:
    def __init__(self, f):
        self.i_act = field_index(f, ENCAPS, 're_use_activated')
        self.i_max = field_index(f, ENCAPS, 're_max_consecutive')
        self.i_cur = field_index(f, ENCAPS, 're_current_consecutive')
        self.i_last = field_index(f, ENCAPS, 'last_label')
        self.v6 = variant_index(f, LABEL, 'SixBytesLabel')
        self.v3 = variant_index(f, LABEL, 'ThreeBytesLabel')
        self.vb = variant_index(f, LABEL, 'Broadcast')
        self.vr = variant_index(f, LABEL, 'ReUse')


def is_none(v):
    return v[0] == 'enum' and len(v[1]) == 1 and v[1][0][0] == 0


def is_some_of(v, payload_pred):
    return v[0] == 'enum' and len(v[1]) == 1 and v[1][0][0] == 1 and payload_pred(v[1][0][1][0])


def analyse_clru(ck, assume=None, tag=''):
    return ck.analyse(clru_key(ck.facts), {'kslots': 16}, assume=assume, tag=tag)


def classify(a, c, w, rv):
    """-> 'subst' | 'pass'  (is the returned label the ReUse constant substituted for another label?)"""
    param_final = w.mem.get(('R', 2))
    single_reuse = rv[0] == 'enum' and len(rv[1]) == 1 and rv[1][0][0] == c.vr
    if single_reuse and param_final is not None and param_final[0] == 'enum' and set(x for x, _ in param_final[1]) != {c.vr}:
        return 'subst'
    return 'pass'


def substitution_guard(ck, P):
    """the clause of C15.R3/R4 that C01 and C04 rest on: a re-use marker is substituted for a label only on a path that
    established Some(label) == last_label, and never with an empty label memory"""
    f = ck.facts
    c = Cells(f)
    a = analyse_clru(ck)
    init = a.I.read(a.w0, a.args[0][1])
    last0 = init[1][c.i_last]
    param0 = a.args[1]
    eqkeys = []
    for r in a.events('eqtest'):
        _, k, la, va, lb, vb = r.data
        sides = [va, vb]
        if any(v[0] == 'enum' and len(v[1]) == 1 and v[1][0][0] == 1 and same_or_refined(param0, v[1][0][1][0]) for v in sides) and \
                any(same_or_refined(last0, v) for v in sides):
            eqkeys.append(k)
    n = 0
    for w, rv in a.rets:
        if classify(a, c, w, rv) != 'subst':
            continue
        n += 1
        ck.obligations += 1
        if any(w.facts.get(k) is True for k in eqkeys):
            ck.discharged += 1
        else:
            ck.finding(P, ENC + 'check_label_re_use', 'subst-without-equality',
                       'a re-use marker can be substituted for a label that has not been compared equal to the remembered label: the receiver would attribute the PDU to another label or refuse it')

    def empty_memory(I, w, args):
        I.write(w, args[0][1].ext(('f', c.i_last)), ('enum', ((0, ()),)))
    b = analyse_clru(ck, assume=empty_memory, tag='last=None')
    for w, rv in b.rets:
        ck.obligations += 1
        if classify(b, c, w, rv) == 'subst':
            ck.finding(P, ENC + 'check_label_re_use', 'subst-after-reset', 'with an empty label memory a re-use marker can still be substituted')
        else:
            ck.discharged += 1
    ck.rule(f'{P} substitution paths of check_label_re_use (guarded by Some(label) == last_label)', n, 1)


def run(ck):
    f = ck.facts
    c = Cells(f)
    a = analyse_clru(ck)
    init = a.I.read(a.w0, a.args[0][1])
    act0 = init[1][c.i_act]
    max0 = init[1][c.i_max][1]
    cur0 = init[1][c.i_cur][1]
    last0 = init[1][c.i_last]
    param0 = a.args[1]
    if act0[0] != 'bool' or act0[1][0] != 'opq':
        raise Tooling('anchor lost: re_use_activated is not a plain bool field')
    act_key = act0[1][1]
    # the equality test Some(next_label) == self.last_label
    eqkeys = []
    for r in a.events('eqtest'):
        _, k, la, va, lb, vb = r.data
        sides = [va, vb]
        has_some_param = any(v[0] == 'enum' and len(v[1]) == 1 and v[1][0][0] == 1 and same_or_refined(param0, v[1][0][1][0]) for v in sides)
        has_last = any(same_or_refined(last0, v) for v in sides)
        if has_some_param and has_last:
            eqkeys.append(k)
    ck.rule('C15.R3 equality test Some(label) == last_label found in check_label_re_use', len(set(eqkeys)), 1)
    nsub = npass = 0
    for w, rv in a.rets:
        fin = a.I.read(w, a.args[0][1])
        curF = fin[1][c.i_cur][1]
        lastF = fin[1][c.i_last]
        maxF = fin[1][c.i_max]
        actF = fin[1][c.i_act]
        kind = classify(a, c, w, rv)
        desc = {'path': kind, 'returned': a.I.facts.variant_name(LABEL, rv[1][0][0]) if rv[0] == 'enum' and len(rv[1]) == 1 else 'label as passed',
                'activated': w.facts.get(act_key), 'cur_final': curF.pretty(), 'last_label_written': not same_or_refined(last0, lastF, w)}
        ck.sample(desc)
        # configuration is never touched here
        if not same_or_refined(init[1][c.i_max], maxF, w) or not same_or_refined(act0, actF, w):
            ck.finding('C15.R2', ENC + 'check_label_re_use', 'config-written', 'check_label_re_use modifies re_max_consecutive / re_use_activated')
        if kind == 'subst':
            nsub += 1
            ck.obligations += 3
            # R1: disabled means never
            if w.facts.get(act_key) is not True:
                ck.finding('C15.R1', ENC + 'check_label_re_use', 'subst-while-disabled', 'a re-use marker can be substituted on a path where re_use_activated is not known to be true')
            else:
                ck.discharged += 1
            # R3: only for a label equal to the remembered one
            if not any(w.facts.get(k) is True for k in eqkeys):
                ck.finding('C15.R3', ENC + 'check_label_re_use', 'subst-without-equality', 'a re-use marker can be substituted on a path where Some(label) == last_label has not been established')
            else:
                ck.discharged += 1
            if not same_or_refined(last0, lastF, w):
                ck.finding('C15.R3', ENC + 'check_label_re_use', 'subst-writes-last', 'the substitution path writes last_label')
            # R2: counter discipline
            if w.store.entails_eq(max0, Lin.c(0)):
                ok = w.store.entails_eq(curF, cur0)
                what = 'unlimited mode (max == 0): counter untouched'
            else:
                ok = w.store.entails(le(Lin.c(1), max0)) and w.store.entails(lt(cur0, max0)) and w.store.entails_eq(curF, cur0 + 1)
                what = 'limited mode: cur_old < max and cur := cur_old + 1'
            if ok:
                ck.discharged += 1
            else:
                ck.finding('C15.R2', ENC + 'check_label_re_use', 'counter-discipline', f"substitution path does not satisfy: {what}")
        else:
            npass += 1
            ck.obligations += 2
            # J is preserved: cur_final <= max whenever cur_old <= max (limited mode)
            w2 = w.fork()
            w2.store = w2.store.add(le(cur0, max0), le(Lin.c(1), max0))
            if w2.store.is_bottom() or w2.store.entails(le(curF, max0)):
                ck.discharged += 1
            else:
                ck.finding('C15.R2', ENC + 'check_label_re_use', 'counter-exceeds-max', 'a path leaves re_current_consecutive above re_max_consecutive')
            # R2: a path that found the equality but did not substitute restarts the run: counter 0
            if any(w.facts.get(k) is True for k in eqkeys) and w.facts.get(act_key) is True:
                if w.store.entails_eq(curF, Lin.c(0)):
                    ck.discharged += 1
                else:
                    ck.finding('C15.R2', ENC + 'check_label_re_use', 'no-reset-after-max', 'a full label is sent after max consecutive re-uses without resetting the counter')
            else:
                ck.discharged += 1
            # R2: an explicit re-use label passed by the caller goes out as a re-use packet, not as a packet carrying the full
            # label: it must not restart the run of consecutive re-uses (else N substitutions, one explicit re-use, N more .. never
            # show the full label again)
            # (a path that found Some(ReUse) == last_label is excluded by the invariant of R3: last_label is never Some(ReUse))
            if rv[0] == 'enum' and len(rv[1]) == 1 and rv[1][0][0] == c.vr and not any(w.facts.get(k) is True for k in eqkeys):
                ck.obligations += 1
                if w.store.entails(le(cur0, curF)):
                    ck.discharged += 1
                else:
                    ck.finding('C15.R2', ENC + 'check_label_re_use', 'reuse-packet-restarts-count', 'a label passed as re-use (sent as a re-use packet) lowers re_current_consecutive: more than the configured number of consecutive re-use packets can follow without a full label')
            # R3: what may be remembered
            ok_last = (same_or_refined(last0, lastF, w) or is_none(lastF)
                       or is_some_of(lastF, lambda p: p[0] == 'enum' and set(x for x, _ in p[1]) <= {c.v6, c.v3} and same_or_refined(param0, p, w)))
            if not ok_last:
                ck.finding('C15.R3', ENC + 'check_label_re_use', 'last-label-value', 'last_label can be set to something other than None or Some(<3/6-byte label just passed>)')
            # R4: a broadcast label clears the memory
            if rv[0] == 'enum' and len(rv[1]) == 1 and rv[1][0][0] == c.vb and w.facts.get(act_key) is True and not is_none(lastF):
                ck.finding('C15.R4', ENC + 'check_label_re_use', 'broadcast-keeps-last', 'a broadcast label does not clear last_label')
            # a remembered label is the label actually returned (sent in full)
            if is_some_of(lastF, lambda p: True) and not same_or_refined(last0, lastF, w):
                if not same_or_refined(param0, rv, w):
                    ck.finding('C15.R3', ENC + 'check_label_re_use', 'remember-without-sending', 'last_label is updated on a path that does not return the label as passed')
    ck.rule('C15 substitution paths of check_label_re_use', nsub, 2)
    ck.rule('C15 pass-through paths of check_label_re_use', npass, 4)

    # R4: with an empty memory nothing is substituted
    def empty_memory(I, w, args):
        loc = args[0][1].ext(('f', c.i_last))
        I.write(w, loc, ('enum', ((0, ()),)))
    b = analyse_clru(ck, assume=empty_memory, tag='last=None')
    nb = 0
    for w, rv in b.rets:
        nb += 1
        if classify(b, c, w, rv) == 'subst':
            ck.finding('C15.R4', ENC + 'check_label_re_use', 'subst-after-reset', 'with last_label == None a re-use marker can still be substituted')
    ck.rule('C15.R4 paths with last_label = None', nb, 3)
    # R4/R5: reset and the three setters leave last_label = None
    for m, floor in (('reset_last_label', 1), ('disable_re_use_label', 1), ('enable_re_use_label', 1), ('enable_re_use_label_with_max_consecutive', 1)):
        s = ck.analyse(ENC + m, {'kslots': 4})
        n = 0
        for w, rv in s.rets:
            n += 1
            fin = s.I.read(w, s.args[0][1])
            if not is_none(fin[1][c.i_last]):
                rule = 'C15.R4' if m == 'reset_last_label' else 'C15.R5'
                ck.finding(rule, ENC + m, 'last-label-kept', f"{m} leaves last_label set: the next packet with that label is sent as re-use although the counter / policy was reset")
            if m != 'reset_last_label':
                if not s.I.read(w, s.args[0][1])[1][c.i_cur] == ('int', Lin.c(0)):
                    ck.finding('C15.R5', ENC + m, 'counter-kept', f"{m} does not reset re_current_consecutive")
        ck.rule(f'C15.R5 {m} returns', n, floor)
    # R6: the public callers of check_label_re_use do not disturb the policy state
    from rules import c04
    ne, no = c04.sender_wrapper_rules(ck, f, c, 'C15.R6', 'C15.R6')
    ck.rule('C15.R6 Err / Ok returns of encap and encap_ext (policy state only moves through check_label_re_use)', ne + no, 14)
    # WHO: writers of the four policy fields
    writers = who_writes(f, ENCAPS, ['re_use_activated', 're_max_consecutive', 're_current_consecutive', 'last_label'])
    allowed = {'re_use_activated': {'new', 'disable_re_use_label', 'enable_re_use_label', 'enable_re_use_label_with_max_consecutive'},
               're_max_consecutive': {'new', 'disable_re_use_label', 'enable_re_use_label', 'enable_re_use_label_with_max_consecutive'},
               're_current_consecutive': {'new', 'disable_re_use_label', 'enable_re_use_label', 'enable_re_use_label_with_max_consecutive', 'check_label_re_use', 'encap', 'encap_ext'},
               'last_label': {'new', 'reset_last_label', 'disable_re_use_label', 'enable_re_use_label', 'enable_re_use_label_with_max_consecutive', 'check_label_re_use', 'encap', 'encap_ext'}}
    nw = 0
    for fld, fns in writers.items():
        for fn in fns:
            nw += 1
            if short(fn) not in allowed[fld] and '::clone' not in fn and f.body(fn).public:
                ck.finding('C15.WHO', fn, f"writes:{fld}", f"public function {short(fn)} writes Encapsulator.{fld}; it is not one of the reviewed entry points of the re-use policy")
    ck.rule('C15.WHO writers of the re-use policy fields', nw, 12)
    ck.assumptions += ['the step from the per-call obligations (invariant J: max != 0 and last_label != None imply consecutive <= cur <= max) to "never more than N consecutive re-use packets" is a paper induction over call histories',
                       'encap / encap_ext reach the policy state only through check_label_re_use and the save/restore of C09.R3 (WHO rule)']
    return ck.finish(
        level='other',
        explanation=('Path summaries of Encapsulator::check_label_re_use (9 paths on the pinned tree: returned label, constraint store, final value of '
                     'every policy field) computed by abstract interpretation and compared with the obligations of the inductive invariant behind the '
                     'policy: substitution only under re_use_activated and the established equality Some(label)==last_label, counter strictly below '
                     'max and incremented by one, reset to 0 when the maximum is reached, broadcast and reset clear the memory, nothing substituted '
                     'with an empty memory, every setter that changes the policy clears last_label and the counter; plus a who-may-write rule on the '
                     'four fields.'),
        trusted=['analysis/stdsum.py summaries (derived PartialEq on Label / Option<Label>)'])


def who_writes(f, adt, fields):
    """functions (non-derive bodies) containing an assignment to a field of `adt` through any place"""
    idx = {field_index(f, adt, n): n for n in fields}
    out = {n: set() for n in fields}
    for b in f.non_derived():
        for blk in b.blocks:
            places = []
            for st in blk['stmts']:
                if st['s'] == 'assign':
                    places.append((st['place'], st['rv']))
            t = blk['term']
            if t['t'] == 'call':
                places.append((t['dest'], None))
            for pl, rv in places:
                ty = b.local_ty(pl['local'])
                for e in pl['proj']:
                    if e['p'] == 'deref':
                        ty = ty.get('to') if ty else None
                    elif e['p'] == 'field':
                        if ty and ty.get('k') == 'adt' and ty.get('name') == adt and e['i'] in idx:
                            out[idx[e['i']]].add(b.key)
                        ty = e['ty']
                    else:
                        ty = None
                # aggregate construction of the whole struct
                if rv is not None and rv['r'] == 'aggregate' and rv.get('kind') == 'adt' and rv.get('adt') == adt and not pl['proj']:
                    for n in fields:
                        out[n].add(b.key)
    return out
