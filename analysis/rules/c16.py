"""C16 — the receiver recovers after any history (absence of poison state; composition)."""
from framework import *
from rules import c05, c08, c15, c17

DECAPS = 'gse_decap::Decapsulator'
LT = 'label::LabelType'


def run(ck):
    f = ck.facts
    i_last = field_index(f, DECAPS, 'last_label')
    fields = [x['name'] for x in f.adts[DECAPS]['variants'][0]['fields']]
    expected = ['memory', 'crc_calculator', 'last_label', 'mandatory_extension_manager']
    if sorted(fields) != sorted(expected):
        ck.finding('C16.R1', DECAPS, f"state-fields:{sorted(fields)}", f"Decapsulator has fields {fields}; the recovery argument was made for {expected}: a new field is new state a history can poison")
    ck.rule('C16.R1 fields of Decapsulator', len(fields), 4)

    def mark(kind):
        def hook(I, w, frame, site, key, args):
            w.mem[('G', 'kind')] = ('enum', ((kind, ()),))
            if kind in (0, 1):
                lt_arg = args[2]
                if lt_arg[0] == 'ref':
                    # the helper takes the label type by reference: the ghost is a copy of the referenced place and learns what
                    # later matches on that place establish (copy alias, see absint.refine_variant)
                    w.alias[(('G', 'lt'), ())] = lt_arg[1]
                    lt_arg = I.read(w, lt_arg[1])
                w.mem[('G', 'lt')] = lt_arg
        return hook
    cfg = decap_cfg(f, {'call_hooks': {DEC + 'decap_complete': mark(0), DEC + 'decap_first': mark(1), DEC + 'decap_intermediate': mark(2), DEC + 'decap_end': mark(3)}})
    a = ck.analyse(DEC + 'decap', cfg, tag='c16')
    self_root = a.args[0][1].root
    # ---- R1: the remembered label is only consulted for re-use labels
    nread = 0
    for r in a.events('disc_read'):
        loc, part, W = r.data[1], r.data[2], r.data[3]
        if loc.root != self_root or not loc.path or loc.path[0] != ('f', i_last):
            continue
        nread += 1
        lt_ = ghost(W, 'lt')
        k = ghost(W, 'kind')
        names = set(f.variant_name(LT, x) for x, _ in lt_[1]) if lt_ is not None and lt_[0] == 'enum' else {'?'}
        ck.obligations += 1
        if k is not None and k[1][0][0] in (0, 1) and names == {'ReUse'}:
            ck.discharged += 1
        else:
            ck.finding('C16.R1', r.site[0], f"reads-last-label:{sorted(names)}", f"{short(r.site[0])} inspects the remembered label while handling a packet with label type {sorted(names)}: the outcome of an explicit-label packet would depend on the history", r.site)
    ck.rule('C16.R1 reads of Decapsulator.last_label', nread, 2)
    # no other field of the decapsulator is written by decap (memory / crc / manager are only called)
    for r in a.events('store'):
        loc = r.data[1]
        if loc.root == self_root and loc.path and loc.path[0][0] == 'f' and loc.path[0][1] != i_last:
            ck.finding('C16.R1', r.site[0], f"writes-field:{fields[loc.path[0][1]]}", f"{short(r.site[0])} writes Decapsulator.{fields[loc.path[0][1]]}", r.site)
    # ---- R4: prerequisites, decided on this run: no panic (no half-updated state), no leak (one buffer suffices)
    n = ck.count_obligations(a.obligations(), 'C16.R4')
    ck.panic_rule('C16.R4 panic obligations of decap (prerequisite: no history can crash the receiver)', n, [a], c05.FLOOR_R1)
    c08.drop_findings(ck, a, 'C16.R4')
    ck.rule('C16.R4 Drop terminators executed abstractly in decap (prerequisite: no history can exhaust the storage)', a.I.stats.get('drops_executed', 0), 20)
    # ---- R3: reset
    s = ck.analyse(DEC + 'reset_last_label', {'kslots': 2})
    for w, rv in s.rets:
        if not c15.is_none(s.I.read(w, s.args[0][1])[1][i_last]):
            ck.finding('C16.R3', DEC + 'reset_last_label', 'reset-keeps-label', 'reset_last_label does not clear the label memory')
    ck.rule('C16.R3 reset_last_label returns', len(s.rets), 1)
    # ---- R2 / R5: the bundled memory cannot refuse the probe (scenario table) and cannot disable itself (WHO)
    c17.run(ck, pid='C16.R2')
    ck.assumptions += ['the success of the probe transfer is a composition argument: after reset the probe uses only explicit-label partitions (R1), which depend on the packet bytes, the result of new_pdu / new_frag / take_frag / save_frag for its own id and the storage length; the bundled memory serves these whenever a buffer is free or the slot is occupied (R2); no panic and no leak on any path (R4)',
                       'storage-size sufficiency and order-preserving delivery of the probe packets are premises',
                       'a buffer lost through the known finding of C08 (save_frag refusal) is tolerated because the probe provisions its own']
    return ck.finish(
        level='other',
        explanation=('Absence of poison state, shown structurally: a history can influence a later transfer only through the four fields of the '
                     'decapsulator; decap writes none but last_label and inspects last_label only while handling a start/complete packet with a '
                     're-use label; reset clears it; the memory scenario table shows that new_pdu / new_frag / take_frag / save_frag behave as '
                     'specified in every memory state and that no method changes the configuration; panic-freedom and buffer conservation of '
                     'decap (decided again on this run) exclude crashed or starved receivers.'),
        trusted=['analysis/stdsum.py'])
