"""C17 — the bundled fragment memory honours the memory-trait contract (path summaries vs spec table)."""
from framework import *
from rules import c15

ERRT = 'gse_decap::gse_decap_memory::DecapMemoryError'


class Mem:
    """scenario builder for SimpleGseMemory methods"""

    def __init__(self, ck):
        self.ck = ck
        f = ck.facts
        self.f = f
        self.i_storages = field_index(f, SGM, 'storages')
        self.i_frags = field_index(f, SGM, 'frags')
        self.i_max = field_index(f, SGM, 'max_frag_id')
        self.i_size = field_index(f, SGM, 'max_pdu_size')
        self.i_fid = field_index(f, CTX, 'frag_id')
        self.ev = {v['name']: v['idx'] for v in f.adts[ERRT]['variants']}

    def scenario(self, method, slot, tag, extra=None):
        """slot: 'none' | 'some-eq' | 'some-lt' | 'some-gt' | 'some' ; returns (analysis, info)"""
        info = {}
        f = self.f
        inv = mem_invariant(f)

        def assume(I, w, args):
            inv(I, w, args)
            base = args[0][1]
            frags = I.read(w, base.ext(('f', self.i_frags)))
            mx = I.read(w, base.ext(('f', self.i_max)))[1]
            w.store = w.store.add(le(Lin.c(1), mx))
            info['max'] = mx
            info['self'] = base
            st = I.read(w, base.ext(('f', self.i_storages)))
            info['storages_root'] = st[1]
            info['len0'] = I.seq_len(w, st[1])
            info['frags_root'] = frags[1]
            seq = w.mem[frags[1]]
            if slot == 'none':
                val = ('enum', ((0, ()),))
            else:
                ety = AI_ty(seq[2])
                cell = I.deep_expand(w, ('top', seq[2], ('stored',), 'stored'))
                # keep only Some(..)
                val = ('enum', tuple((v, fs) for v, fs in cell[1] if v == 1))
                ctxv, boxv = val[1][0][1][0][1]
                info['stored_ctx'], info['stored_box'] = ctxv, boxv
                sid = ctxv[1][self.i_fid][1]
                info['stored_id'] = sid
            info['slot0'] = val
            w.mem[frags[1]] = ('seq', seq[1], seq[2], (), ('default', val, seq[4]), seq[5])
            if extra:
                extra(I, w, args, info)
        a = self.ck.analyse(MEM + method, {'kslots': 16}, assume=assume, tag=tag)
        return a, info

    def slot_after(self, a, info, w):
        seq = w.mem[info['frags_root']]
        cells = seq[3]
        if len(cells) == 0:
            return info['slot0'], None
        if len(cells) > 1:
            return None, None
        return cells[0][1], cells[0][0]

    def err_name(self, fs):
        e = fs[0]
        if e[0] == 'enum' and len(e[1]) == 1:
            return self.f.variant_name(ERRT, e[1][0][0]), e[1][0][1]
        return '?', ()


def AI_ty(s):
    from values import TY
    return TY.get(s)


def expect(ck, cond, rule, fn, key, what):
    ck.obligations += 1
    if cond:
        ck.discharged += 1
    else:
        ck.finding(rule, fn, key, what)


def check_index(ck, m, a, info, idx, id_lin, method, pid='C17'):
    """the slot touched is frag_id % max_frag_id"""
    if idx is None:
        return
    ok = False
    if len(idx.terms) == 1 and idx.const == 0:
        d = ATOMS.info(idx.terms[0][0]).defn
        ok = bool(d) and d[0] == 'rem' and d[2] == info['max'] and d[1] == id_lin
    expect(ck, ok, f'{pid}.R8', MEM + method, 'index-function', f"{method}: the slot index is not frag_id % max_frag_id")


def run(ck, pid='C17'):
    f = ck.facts
    m = Mem(ck)
    n = 0
    # ------------------------------------------------------------ take_frag
    for slot in ('none', 'some-eq', 'some-lt', 'some-gt'):
        def rel(I, w, args, info, _s=slot):
            if _s == 'none':
                return
            rid = args[1][1]
            if _s == 'some-eq':
                w.store = w.store.add_eq(info['stored_id'], rid)
            elif _s == 'some-lt':
                w.store = w.store.add(lt(info['stored_id'], rid))
            else:
                w.store = w.store.add(lt(rid, info['stored_id']))
        a, info = m.scenario('take_frag', slot, f'take:{slot}', rel)
        ck.count_obligations(a.obligations(), f'{pid}.R9')
        for w, rv in a.rets:
            n += 1
            after, idx = m.slot_after(a, info, w)
            check_index(ck, m, a, info, idx, a.args[1][1], 'take_frag', pid)
            alts = ret_alts(rv) or []
            kinds = [v for v, _ in alts]
            if slot == 'some-eq':
                ok = kinds == [0] and after is not None and c15.is_none(after)
                if ok:
                    got = alts[0][1][0]
                    ok = got[0] == 'agg' and got[1][0] == info['stored_ctx'] and got[1][1] == info['stored_box']
                expect(ck, ok, f'{pid}.take_frag', MEM + 'take_frag', 'take-stored', 'take_frag(id) with a context stored under that id does not return exactly that context and buffer and empty the slot')
            else:
                name = m.err_name(alts[0][1])[0] if kinds == [1] else 'Ok'
                ok = kinds == [1] and name == 'UndefinedId' and after is not None and after == info['slot0']
                expect(ck, ok, f'{pid}.take_frag', MEM + 'take_frag', f"take-{slot}",
                       f"take_frag with slot {'empty' if slot == 'none' else 'holding another fragment id'}: expected Err(UndefinedId) and the slot untouched, got {name} with slot {'changed' if after != info['slot0'] else 'untouched'}")
            ck.sample({'method': 'take_frag', 'scenario': slot, 'returns': 'Ok' if kinds == [0] else m.err_name(alts[0][1])[0], 'slot_after': 'None' if after is not None and c15.is_none(after) else ('as before' if after == info['slot0'] else 'other')})
    # ------------------------------------------------------------ save_frag
    for slot in ('none', 'some'):
        a, info = m.scenario('save_frag', slot, f'save:{slot}')
        ck.count_obligations(a.obligations(), f'{pid}.R9')
        arg = a.args[1]
        for w, rv in a.rets:
            n += 1
            after, idx = m.slot_after(a, info, w)
            check_index(ck, m, a, info, idx, arg[1][0][1][m.i_fid][1], 'save_frag', pid)
            alts = ret_alts(rv) or []
            kinds = [v for v, _ in alts]
            if slot == 'none':
                ok = kinds == [0] and after is not None and after == ('enum', ((1, (arg,)),))
                expect(ck, ok, f'{pid}.save_frag', MEM + 'save_frag', 'save-into-empty', 'save_frag into an empty slot does not store exactly the context and buffer given')
            else:
                name = m.err_name(alts[0][1])[0] if kinds == [1] else 'Ok'
                ok = kinds == [1] and name == 'MemoryCorrupted' and after == info['slot0']
                expect(ck, ok, f'{pid}.save_frag', MEM + 'save_frag', 'save-into-occupied', f"save_frag into an occupied slot: expected Err(MemoryCorrupted) and the slot untouched, got {name}")
            ck.sample({'method': 'save_frag', 'scenario': slot, 'returns': 'Ok' if kinds == [0] else m.err_name(alts[0][1])[0]})
    # ------------------------------------------------------------ new_frag
    for slot, free in (('none', 'some'), ('none', 'empty'), ('some', 'any')):
        def fl(I, w, args, info, _f=free):
            if _f == 'some':
                w.store = w.store.add(le(Lin.c(1), info['len0']))
            elif _f == 'empty':
                w.store = w.store.add_eq(info['len0'], Lin.c(0))
        a, info = m.scenario('new_frag', slot, f'new_frag:{slot}:{free}', fl)
        ck.count_obligations(a.obligations(), f'{pid}.R9')
        ctx = a.args[1]
        for w, rv in a.rets:
            n += 1
            after, idx = m.slot_after(a, info, w)
            check_index(ck, m, a, info, idx, ctx[1][m.i_fid][1], 'new_frag', pid)
            alts = ret_alts(rv) or []
            kinds = [v for v, _ in alts]
            len1 = a.I.seq_len(w, info['storages_root'])
            if slot == 'some':
                got = alts[0][1][0] if kinds == [0] else None
                ok = got is not None and got[0] == 'agg' and got[1][0] == ctx and got[1][1] == info['stored_box'] and c15.is_none(after) and w.store.entails_eq(len1, info['len0'])
                expect(ck, ok, f'{pid}.new_frag', MEM + 'new_frag', 'replace', "new_frag on an occupied slot does not return (the new context, the previous context's buffer), empty the slot and leave the free list alone")
            elif free == 'some':
                got = alts[0][1][0] if kinds == [0] else None
                ok = got is not None and got[0] == 'agg' and got[1][0] == ctx and got[1][1][0] == 'box' and c15.is_none(after) and w.store.entails_eq(len1, info['len0'] - 1)
                expect(ck, ok, f'{pid}.new_frag', MEM + 'new_frag', 'take-free', 'new_frag on an empty slot with a free buffer does not return (the context given, a buffer popped from the free list)')
            else:
                name = m.err_name(alts[0][1])[0] if kinds == [1] else 'Ok'
                ok = kinds == [1] and name == 'StorageUnderflow' and c15.is_none(after)
                expect(ck, ok, f'{pid}.new_frag', MEM + 'new_frag', 'underflow', f"new_frag on an empty slot without free buffer: expected Err(StorageUnderflow), got {name}")
            ck.sample({'method': 'new_frag', 'scenario': f"{slot}/{free}", 'returns': 'Ok' if kinds == [0] else m.err_name(alts[0][1])[0]})
    # ------------------------------------------------------------ new_pdu / provision_storage
    for free in ('some', 'empty'):
        def fl2(I, w, args, info, _f=free):
            if _f == 'some':
                w.store = w.store.add(le(Lin.c(1), info['len0']))
            else:
                w.store = w.store.add_eq(info['len0'], Lin.c(0))
        a, info = m.scenario('new_pdu', 'none', f'new_pdu:{free}', fl2)
        for w, rv in a.rets:
            n += 1
            alts = ret_alts(rv) or []
            kinds = [v for v, _ in alts]
            len1 = a.I.seq_len(w, info['storages_root'])
            if free == 'some':
                ok = kinds == [0] and alts[0][1][0][0] == 'box' and w.store.entails_eq(len1, info['len0'] - 1)
                expect(ck, ok, f'{pid}.new_pdu', MEM + 'new_pdu', 'pop', 'new_pdu with a free buffer does not return one buffer popped from the free list')
            else:
                name = m.err_name(alts[0][1])[0] if kinds == [1] else 'Ok'
                expect(ck, kinds == [1] and name == 'StorageUnderflow', f'{pid}.new_pdu', MEM + 'new_pdu', 'underflow', f"new_pdu without free buffer: expected Err(StorageUnderflow), got {name}")
    a, info = m.scenario('provision_storage', 'none', 'provision')
    box = a.args[1]
    blen = a.I.seq_len(a.w0, box[1])
    size = a.I.read(a.w0, info['self'].ext(('f', m.i_size)))[1]
    stv = a.w0.mem[info['storages_root']]
    cap = stv[5]
    for w, rv in a.rets:
        n += 1
        alts = ret_alts(rv) or []
        kinds = [v for v, _ in alts]
        len1 = a.I.seq_len(w, info['storages_root'])
        capv = w.mem[info['storages_root']][5]
        if kinds == [0]:
            pushed = [r for r in a.events('vec_push') if r.data[1] == info['storages_root']]
            ok = (w.store.entails_eq(len1, info['len0'] + 1) and w.store.entails(le(size, blen)) and capv is not None
                  and not w.store.satisfiable_with(le(capv, info['len0']), le(info['len0'], capv)) and pushed and all(p.data[2] == box for p in pushed))
            expect(ck, ok, f'{pid}.provision_storage', MEM + 'provision_storage', 'push', 'provision_storage Ok: the buffer given is not pushed on the free list exactly when the list is not full and the buffer is large enough')
        else:
            name, pl = m.err_name(alts[0][1])
            same_list = w.store.entails_eq(len1, info['len0'])
            gives_back = bool(pl) and pl[0] == box
            if name == 'StorageOverflow':
                ok = same_list and gives_back and capv is not None and w.store.entails_eq(capv, info['len0'])
            elif name == 'BufferTooSmall':
                ok = same_list and gives_back and w.store.entails(lt(blen, size))
            else:
                ok = False
            expect(ck, ok, f'{pid}.provision_storage', MEM + 'provision_storage', f"refuse:{name}", f"provision_storage Err({name}): must hand the same buffer back, leave the free list unchanged and happen only when the list is full / the buffer is smaller than max_pdu_size")
        ck.sample({'method': 'provision_storage', 'returns': 'Ok' if kinds == [0] else m.err_name(alts[0][1])[0]})
    ck.rule(f'{pid} return paths of the five memory methods over all scenarios', n, 14)
    # R10: the free list never outgrows its configured capacity: every push onto the list of free buffers happens with room left
    # (a push onto a full Vec reallocates, after which `capacity() == len()` no longer detects "full" where it used to)
    npush = 0
    for (key, tag), a in list(ck.analyses.items()):
        if not key.startswith(MEM):
            continue
        for r in a.events('vec_push'):
            if len(r.data) < 7:
                continue
            W, len0, cap = r.data[4], r.data[5], r.data[6]
            sv = W.mem.get(r.data[1])
            if sv is None or 'Box<[u8]>' not in str(sv[2]):
                continue
            npush += 1
            ck.obligations += 1
            if W.store.entails(le(len0 + 1, cap)):
                ck.discharged += 1
            else:
                ck.finding(f'{pid}.R10', r.site[0], 'push-on-full-list', f"{short(r.site[0])}: a buffer is pushed onto the free list without room having been established (len < capacity): the list can grow beyond its configured capacity and provision_storage stops reporting StorageOverflow", r.site)
    ck.rule(f'{pid}.R10 pushes onto the free list', npush, 1)
    # ------------------------------------------------------------ R7 contents untouched
    nev = 0
    for (key, tag), an in ck.analyses.items():
        if not key.startswith(MEM):
            continue
        for r in an.records:
            if r.kind == 'event' and r.data[0] == 'write':
                nev += 1
                ck.finding(f'{pid}.R7', key, 'writes-buffer-contents', f"{short(key)} copies bytes into a buffer: the memory must not modify buffer contents", r.site)
            if r.kind == 'event' and r.data[0] == 'store' and r.data[1].path and r.data[1].path[-1][0] == 'i':
                root = r.data[1].root
                sv = an.w0.mem.get(root) or r.data[4].mem.get(root)
                if sv is not None and sv[0] == 'seq' and sv[2] and AI_ty(sv[2]) and AI_ty(sv[2]).get('k') == 'int':
                    ck.finding(f'{pid}.R7', key, 'writes-buffer-byte', f"{short(key)} writes a byte of a storage buffer", r.site)
    # WHO writes the configuration fields
    writers = c15.who_writes(f, SGM, ['max_frag_id', 'max_pdu_size', 'frags', 'storages'])
    for fld in ('max_frag_id', 'max_pdu_size'):
        for fn in writers[fld]:
            if short(fn) != 'new' and '::clone' not in fn:
                ck.finding(f'{pid}.WHO', fn, f"writes:{fld}", f"{short(fn)} writes SimpleGseMemory.{fld} (only `new` may: struct invariant frags.len() == max_frag_id)")
    ck.rule(f'{pid}.WHO constructors / writers of the configuration fields', sum(len(v) for v in writers.values()), 1)
    return None


def main(ck):
    run(ck)
    ck.assumptions += ['Vec::with_capacity allocates exactly the requested capacity (std behaviour)', 'struct invariant frags.len() == max_frag_id (only `new` writes both: WHO rule)',
                       'the quantification over operation sequences follows because each summary is a total function of the abstract state (bag of free buffers + one context per slot), which is the specification object itself']
    return ck.finish(
        level='other',
        explanation=('Each of the five SimpleGseMemory methods is analysed under every scenario of the abstract memory state that its contract '
                     'distinguishes (slot empty / holding the requested id / holding a smaller or larger id; free list empty / non-empty; list full; '
                     'buffer too small) with symbolic ids, sizes and contents; the return value, the final slot content and the free-list length of '
                     'every path are compared with the specification table of the trait documentation (exact values: the very context and buffer '
                     'objects). No method writes buffer contents; every slot access uses frag_id % max_frag_id.'),
        trusted=['analysis/stdsum.py (Vec::push/pop/len/capacity, mem::swap)'])
