"""C18 — previews predict exactly what encapsulation will produce (sibling cross-check)."""
from framework import *
from rules import c09, c11
from lin import Store

PV = 'gse_encap::EncapPreview'
ERR = 'gse_encap::EncapError'


def shared_args(src, names_src, body_dst):
    """arg_values for run_root of the sibling: reuse the argument values (and their objects) of `src`"""
    av = {}
    for nm, val in names_src.items():
        try:
            i = param_index(body_dst, nm)
        except Tooling:
            continue
        if True:

            def mk(I, w, _v=val):
                for root, v in src.w0.mem.items():
                    if root[0] in ('O', 'K') and root not in w.mem:
                        w.mem[root] = v
                        if root in src.w0.names:
                            w.names[root] = src.w0.names[root]
                return _v
            av[i] = mk
    return av


def analyse_sibling(ck, key, src, tag):
    body = ck.facts.body(key)
    names = {}
    for role in ('pdu', 'metadata', 'context', 'buffer'):
        try:
            names[role] = src.args[param_index(src.body, role) - 1]
        except Tooling:
            pass
    I = Interp(ck.facts, {'kslots': 24})

    class A:
        pass
    a = A()
    a.I, a.body, a.key = I, body, key
    a.rets = I.run_root(body, arg_values=shared_args(src, names, body))
    a.records = I.all_records()
    ck.functions |= I.stats['functions']
    ck.analyses[(key, tag)] = a
    a.I = I
    return a


def variants(v):
    return set(x for x, _ in v[1]) if v[0] == 'enum' else None


def label_of(a, w, f, argname='metadata'):
    v = w.mem.get(('R', param_index(a.body, argname)))
    if v is not None and v[0] == 'agg':
        return v[1][field_index(f, 'gse_encap::EncapMetadata', 'label')]
    return None


def compare(ck, f, wname, pname, wa, pa, frag):
    i_kind, i_pdu, i_len = (field_index(f, PV, n) for n in ('pkt_type', 'pdu_len', 'pkt_len'))
    npairs = 0
    for ww, wrv in wa.rets:
        sub = ghost(ww, 'subst')
        if sub is not None and sub[1][0][0] == 1:
            continue            # a re-use substitution applies: outside the statement
        w_oks, w_errs = c11.ok_parts(f, wrv)
        wl = label_of(wa, ww, f) if not frag else None
        for pw, prv in pa.rets:
            if not frag:
                pl = label_of(pa, pw, f)
                if wl is not None and pl is not None and variants(wl) is not None and variants(pl) is not None and not (variants(wl) & variants(pl)):
                    continue
            joint = Store(frozenset(ww.store.cons | pw.store.cons))
            if joint.is_bottom():
                continue
            # opaque facts must not contradict (same inputs), nor contradict the joint constraints
            if any(k in pw.facts and pw.facts[k] != v for k, v in ww.facts.items()):
                continue
            from values import World
            jw = World()
            jw.store = joint
            contradiction = False
            for facts_ in (ww.facts, pw.facts):
                for k, v in facts_.items():
                    if isinstance(k, tuple) and k and k[0] == 'form':
                        d = wa.I.decide(jw, k[1])
                        if d is not None and d != v:
                            contradiction = True
            if contradiction:
                continue
            npairs += 1
            p_oks = []
            p_errs = []
            for v, fs in (ret_alts(prv) or []):
                if v == 0:
                    p_oks.append(fs[0])
                else:
                    p_errs += [f.variant_name(ERR, ev) for ev, _ in fs[0][1]]
            ck.obligations += 1
            good = True
            if w_errs and p_oks and not w_oks:
                good = False
                ck.finding('C18.R1' if not frag else 'C18.R2', 'gse_encap::' + pname, f"preview-ok-writer-err:{sorted(set(w_errs))}", f"{pname} announces a packet where {wname} returns Err({sorted(set(w_errs))}) for the same inputs")
            if w_oks and p_errs and not p_oks:
                good = False
                ck.finding('C18.R1' if not frag else 'C18.R2', 'gse_encap::' + pname, f"preview-err-writer-ok:{sorted(set(p_errs))}", f"{pname} returns Err({sorted(set(p_errs))}) where {wname} produces a packet for the same inputs")
            if w_errs and p_errs and not w_oks and not p_oks and set(w_errs) != set(p_errs):
                good = False
                ck.finding('C18.R1' if not frag else 'C18.R2', 'gse_encap::' + pname, f"different-errors:{sorted(set(p_errs))}:{sorted(set(w_errs))}", f"{pname} returns Err({sorted(set(p_errs))}) where {wname} returns Err({sorted(set(w_errs))})")
            if w_oks and p_oks:
                part = hdr_partition(f, ww)
                g = ghost(ww, 'hdr_len')
                for pv in p_oks:
                    if pv[0] != 'agg' or part is None:
                        good = False
                        ck.finding('C18.R1', 'gse_encap::' + pname, 'shape', f"{pname}: preview value / header partition not recognisable")
                        continue
                    kv = pv[1][i_kind]
                    kname = f.variant_name(PKT, kv[1][0][0]) if kv[0] == 'enum' and len(kv[1]) == 1 else '?'
                    if kname != part[0]:
                        good = False
                        ck.finding('C18.R1' if not frag else 'C18.R2', 'gse_encap::' + pname, f"kind:{kname}:{part[0]}", f"{pname} predicts a {kname} packet where {wname} builds a {part[0]} packet")
                        continue
                    for sname, rlen, ctx in w_oks:
                        plen = pv[1][i_len]
                        if plen[0] != 'int' or rlen[0] != 'int' or has_trunc(plen[1]) or not joint.entails_eq(plen[1], rlen[1]):
                            good = False
                            ck.finding('C18.R1' if not frag else 'C18.R2', 'gse_encap::' + pname, f"pkt_len:{part[0]}", f"{pname} ({part[0]}): predicted packet length {plen[1].pretty() if plen[0]=='int' else '?'} differs from the length {wname} returns ({rlen[1].pretty() if rlen[0]=='int' else '?'})")
                        if frag:
                            n = g[1] - 1 if part[0] == 'IntermediateFragPkt' else g[1] - 5
                            pp = pv[1][i_pdu]
                            if pp[0] != 'int' or not joint.entails_eq(pp[1], n):
                                good = False
                                ck.finding('C18.R2', 'gse_encap::' + pname, f"pdu_len:{part[0]}", f"{pname} ({part[0]}): predicted payload length differs from the bytes {wname} writes")
            if good:
                ck.discharged += 1
                ck.sample({'pair': f"{pname} vs {wname}", 'writer': sorted(set(w_errs)) or [s for s, _, _ in w_oks], 'preview': sorted(set(p_errs)) or 'Ok'})
    return npairs


def run(ck):
    f = ck.facts

    def clru_ret(I, w, frame, site, args, rv):
        arg = args[1]
        reuse = variant_index(f, 'label::Label', 'ReUse')
        single = rv[0] == 'enum' and len(rv[1]) == 1 and rv[1][0][0] == reuse
        arg_single = arg[0] == 'enum' and len(arg[1]) == 1 and arg[1][0][0] == reuse
        w.mem[('G', 'subst')] = ('enum', ((1 if (single and not arg_single) else 0, ()),))
    extra = {'ret_hooks': {clru_key(f): clru_ret}, 'kslots': 64}
    i_label = field_index(f, 'gse_encap::EncapMetadata', 'label')
    n1 = 0
    pa_all = []
    for lv in f.adts['label::Label']['variants']:
        def fix_label(I, w, args, body, _v=lv['idx']):
            i = param_index(body, 'metadata')
            md = args[i - 1]
            lab = md[1][i_label]
            one = ('enum', tuple((v, fs) for v, fs in lab[1] if v == _v))
            fl = list(md[1])
            fl[i_label] = one
            args[i - 1] = ('agg', tuple(fl))
        wa = analyse_writer(ck, ENC + 'encap', tag=f"c18-{lv['name']}", extra=extra, premise=fix_label)
        pa = analyse_sibling(ck, 'gse_encap::encap_preview', wa, f"c18-{lv['name']}")
        pa_all.append(pa)
        n1 += compare(ck, f, 'encap', 'encap_preview', wa, pa, False)
    ck.rule('C18.R1 jointly satisfiable (encap_preview, encap) return pairs', n1, 10)
    wf = analyse_writer(ck, ENC + 'encap_frag', tag='c18', extra={'kslots': 24})
    pf = analyse_sibling(ck, 'gse_encap::encap_frag_preview', wf, 'c18')
    n2 = compare(ck, f, 'encap_frag', 'encap_frag_preview', wf, pf, True)
    ck.rule('C18.R2 jointly satisfiable (encap_frag_preview, encap_frag) return pairs', n2, 4)
    # R3: previews cannot modify anything: signature facts
    nsig = 0
    for it in f.items:
        if it['name'] in ('gse_encap::encap_preview', 'gse_encap::encap_frag_preview'):
            nsig += 1
            for t in it.get('inputs', []):
                if t['k'] == 'ref' and t['mut']:
                    ck.finding('C18.R3', it['name'], 'mut-param', f"{it['name']} takes a mutable reference")
    ck.rule('C18.R3 preview signatures inspected', nsig, 2)
    for a in pa_all + [pf]:
        for r in a.records:
            if r.kind == 'event' and r.data[0] in ('store', 'write', 'vec_push'):
                ck.finding('C18.R3', a.key, 'preview-writes', f"{short(a.key)} writes through a reference", r.site)
    ck.assumptions += ['the comparison for encap_preview excludes the paths of encap on which check_label_re_use substituted the label (the statement says so)']
    return ck.finish(
        level='other',
        explanation=('Sibling cross-check: encap_preview and encap (and encap_frag_preview / encap_frag) are analysed on the same symbolic arguments; '
                     'for every pair of return partitions whose path constraints are jointly satisfiable the results must agree — same error kind, '
                     'or predicted packet kind = kind passed to generate_gse_header, predicted packet length = returned length, predicted payload '
                     'length = bytes written. Because the writer side is whatever the writer does today, a repair of the writer that forgets the '
                     'preview is reported. Previews: no mutable reference parameters, no store through any reference.'),
        trusted=['analysis/lin.py joint satisfiability (FM is complete over Q: a pair declared unsatisfiable is unsatisfiable over Z)'])
