"""C19 — peeking the label or fragment id agrees with decapsulation (sibling layout agreement)."""
from framework import *
FLOOR_R4 = 40

LOF = 'gse_decap::LabelorFragId'
GERR = 'gse_decap::GetLabelorFragIdError'
RGH = 'gse_decap::read_gse_header'
LT = 'label::LabelType'
# minimal length of a packet the encapsulator can emit, per kind (payload >= 1 byte for intermediate, CRC for end)
MIN_EMITTED = {'CompletePkt': lambda L: 4 + L, 'FirstFragPkt': lambda L: 7 + L, 'IntermediateFragPkt': lambda L: 4, 'EndFragPkt': lambda L: 7}
LABEL_AT = {'CompletePkt': 4, 'FirstFragPkt': 7}


def run(ck):
    f = ck.facts

    def after_hdr(I, w, frame, site, args, rv):
        w.mem[('G', 'hdr')] = rv
    a = ck.analyse(DEC + 'get_label_or_frag_id', {'kslots': 4, 'ret_hooks': {RGH: after_hdr}})
    n = ck.count_obligations(a.obligations(), 'C19.R4')
    ck.panic_rule('C19.R4 panic obligations of the peek', n, [a], FLOOR_R4)
    buf = a.arg('buffer')
    blen = buf[3]
    v_frag = variant_index(f, LOF, 'FragId')
    v_lbl = variant_index(f, LOF, 'Lbl')
    cells = set()
    nret = 0
    for w, rv in a.rets:
        h = ghost(w, 'hdr')
        if h is None:
            # buffer shorter than the fixed header
            for v, fs in (ret_alts(rv) or []):
                nret += 1
                if v != 1 or w.store.satisfiable_with(le(Lin.c(2), blen)):
                    ck.finding('C19.R3', DEC + 'get_label_or_frag_id', 'early-exit', 'the peek returns before decoding the header although the buffer holds two bytes or more')
            continue
        if h[0] != 'enum' or len(h[1]) != 1:
            ck.finding('C19.R1', DEC + 'get_label_or_frag_id', 'header-cell', 'peek: decoded header not a single cell at return')
            continue
        hv, hfs = h[1][0]
        if hv == 0:
            for v, fs in (ret_alts(rv) or []):
                nret += 1
                ename = f.variant_name(GERR, fs[0][1][0][0]) if v == 1 and fs[0][0] == 'enum' else 'Ok'
                if ename != 'ErrHeaderRead':
                    ck.finding('C19.R1', DEC + 'get_label_or_frag_id', f"padding:{ename}", f"peek on a padding header returns {ename}")
            continue
        tup = hfs[0]
        kn = f.variant_name(PKT, tup[1][1][1][0][0])
        ln = f.variant_name(LT, tup[1][2][1][0][0])
        L = LABEL_LEN[ln]
        cells.add((kn, ln))
        for v, fs in (ret_alts(rv) or []):
            nret += 1
            ck.obligations += 1
            good = False
            what = ''
            if v == 0:
                res = fs[0]
                rv_, rfs = res[1][0] if res[0] == 'enum' and len(res[1]) == 1 else (None, ())
                if kn in ('IntermediateFragPkt', 'EndFragPkt'):
                    good = rv_ == v_frag and is_byte2(rfs[0], buf)
                    what = 'FragId(byte 2 of the packet)'
                elif ln == 'Broadcast':
                    good = rv_ == v_lbl and rfs[0][0] == 'enum' and len(rfs[0][1]) == 1 and f.variant_name('label::Label', rfs[0][1][0][0]) == 'Broadcast'
                    what = 'Lbl(Broadcast)'
                elif ln in ('SixBytesLabel', 'ThreeBytesLabel'):
                    good = rv_ == v_lbl and label_window(rfs[0], buf, LABEL_AT[kn], L, f, ln)
                    what = f"Lbl(label built from bytes [{LABEL_AT[kn]}, {LABEL_AT[kn] + L}))"
                else:
                    what = 'Err(ErrLabelReuse)'
                ck.sample({'cell': f"{kn}/{ln}", 'peek': 'FragId' if rv_ == v_frag else 'Lbl', 'agrees': good})
            else:
                ename = f.variant_name(GERR, fs[0][1][0][0]) if fs[0][0] == 'enum' and len(fs[0][1]) == 1 else '?'
                if ename == 'ErrLabelReuse':
                    good = kn in ('CompletePkt', 'FirstFragPkt') and ln == 'ReUse'
                    what = 'a label / fragment id (ErrLabelReuse is only for start/complete packets with a re-use label)'
                elif ename == 'ErrSizeBuffer':
                    # R3: never on a packet the encapsulator can emit for this cell
                    need = MIN_EMITTED[kn](L)
                    if kn in ('IntermediateFragPkt', 'EndFragPkt') and ln != 'ReUse':
                        good = True      # the encapsulator emits fragments with label type 11 only (C06.R6 / C10.R3)
                    else:
                        good = not w.store.satisfiable_with(le(Lin.c(need), blen))
                    what = f"no size error when the buffer holds the {need} bytes every emitted packet of that cell has"
                else:
                    what = 'no other error'
                ck.sample({'cell': f"{kn}/{ln}", 'peek': f"Err({ename})", 'agrees': good})
            if good:
                ck.discharged += 1
            else:
                ck.finding('C19.R1' if v == 0 else 'C19.R3', DEC + 'get_label_or_frag_id', f"cell:{kn}:{ln}:{'Ok' if v == 0 else 'Err'}", f"peek on a {kn} packet with {ln} label: expected {what}")
    ck.rule('C19.R1 return paths of the peek by header cell', nret, 18)
    if len(cells) < 15:
        ck.finding('C19.R1', DEC + 'get_label_or_frag_id', 'cells', f"only {len(cells)} of the 15 non-padding header cells reach a return of the peek")
    # R2: the receiver reads the label at the same place with the same constructor (C01/C04: decap builds Label::new(type, buffer[4..] / buffer[7..]))
    ck.assumptions += ['decap associates with a start/complete packet the label Label::new(type, bytes at offset 4 / 7) and with a fragment the id at byte 2: rules C04.R5 and C07.R1 establish that on the decap side with the same window test',
                       'emitted packets have at least 4+L (complete), 7+L (first), 4 (intermediate, >= 1 payload byte: C11.R1), 7 (end) bytes: C06']
    return ck.finish(
        level='other',
        explanation=('The peek is analysed on a symbolic buffer; its return paths are partitioned by the decoded header cell (kind x label type). For '
                     'each cell the returned value must be the fragment id read at byte 2, the label constructed from the window the ETSI layout '
                     '(and decap) uses for that kind, Lbl(Broadcast) without reading, or ErrLabelReuse; a size error must be impossible for buffers '
                     'as long as the shortest packet the encapsulator emits for that cell; the peek has no reachable panic.'),
        trusted=['analysis/stdsum.py'])


def is_byte2(v, buf):
    if v[0] != 'int' or len(v[1].terms) != 1 or v[1].const != 0:
        return False
    d = ATOMS.info(v[1].terms[0][0]).defn
    if not d:
        return False
    if d[0] == 'elem':
        return isinstance(d[1], tuple) and d[1][0] == 'pointee' and isinstance(d[1][1], tuple) and d[1][1][0] == 'param' and d[2] == Lin.c(2)
    if d[0] == 'be':
        return d[1] == buf[1] and d[2] == Lin.c(2) and d[3] == 1
    return False


def label_window(lab, buf, off, L, f, ln):
    if lab[0] != 'enum' or len(lab[1]) != 1 or f.variant_name('label::Label', lab[1][0][0]) != ln:
        return False
    arr = lab[1][0][1][0]
    return arr[0] == 'arr' and arr[1] == L and arr[2][0] == 'bytes_of' and arr[2][1] == buf[1] and arr[2][2] == Lin.c(off)
