"""C20 — packet structs in utils serialise and parse consistently with the codec (layout agreement)."""
from framework import *

KINDS = {'GseCompletePacket': 'CompletePkt', 'GseFirstFragPacket': 'FirstFragPkt', 'GseIntermediatePacket': 'IntermediateFragPkt', 'GseEndFragPacket': 'EndFragPkt'}
RGH = 'gse_decap::read_gse_header'
LT = 'label::LabelType'


def key_of(struct, method):
    return f"<utils::{struct}<'a> as utils::Serialisable<'a>>::{method}"


def find_body(f, struct, method):
    for k in f.by_key:
        if k.startswith(f"<utils::{struct}") and k.endswith(f"::{method}"):
            return k
    raise Tooling(f"anchor lost: utils::{struct}::{method}")


def run(ck):
    f = ck.facts
    ngen = npar = 0
    utils_cells = set()
    for struct, kind in KINDS.items():
        adt = f.adts.get('utils::' + struct)
        if adt is None:
            raise Tooling(f"anchor lost: utils::{struct}")
        fnames = [x['name'] for x in adt['variants'][0]['fields']]
        # ------------------------------------------------------------ generate
        gk = find_body(f, struct, 'generate')
        a = analyse_writer(ck, gk)
        selfv = a.I.read(a.w0, a.args[0][1])
        fld = {n: selfv[1][i] for i, n in enumerate(fnames)}
        self_root = a.args[0][1].root
        buf_root = a.arg('buffer')[1].root
        seen = {}
        for r in a.records:
            if r.kind != 'event' or r.data[0] != 'write':
                continue
            _, base, start, ln, src = r.data[:5]
            W = r.data[6]
            if base.root != buf_root:
                continue
            part = hdr_partition(f, W)
            if part is None:
                ck.finding('C20.R1', gk, 'write-before-header', f"{struct}::generate writes before building the header", r.site)
                continue
            if part[0] != kind:
                ck.finding('C20.R1', gk, f"kind:{part[0]}", f"{struct}::generate builds a {part[0]} header", r.site)
                continue
            L = LABEL_LEN[part[1]]
            d = classify(a, W, src, fld, self_root, fnames)
            spec = {n: (o, l) for n, o, l in spec_fields(kind, L)}
            ngen += 1
            ck.obligations += 1
            if d not in spec:
                ck.finding('C20.R1', gk, f"unexpected:{d}", f"{struct}::generate writes {d}, not a field of a {kind}", r.site)
                continue
            off, le_ = spec[d]
            good = True
            if off is not None and not W.store.entails_eq(start, Lin.c(off)):
                good = False
            if le_ is not None and not W.store.entails_eq(ln, Lin.c(le_)):
                good = False
            if d == 'pdu':
                good = good and src[0] == 'seq' and fld['pdu'][0] == 'slice' and src[1] == fld['pdu'][1] and W.store.entails_eq(src[2], fld['pdu'][2]) and W.store.entails_eq(ln, fld['pdu'][3])
            if d == 'crc':
                good = good and 'pdu' in fld and W.store.entails_eq(start, Lin.c(3) + fld['pdu'][3])
            if good:
                ck.discharged += 1
                seen.setdefault(part, set()).add(d)
            else:
                ck.finding('C20.R1', gk, f"misplaced:{part[1]}:{d}", f"{struct}::generate ({part[1]} label): field {d} written at [{start.pretty()}, +{ln.pretty()}), the layout says offset {off} length {le_}", r.site)
        for part, ds in seen.items():
            L = LABEL_LEN[part[1]]
            for n, o, l in spec_fields(kind, L):
                if n == 'label' and L == 0:
                    continue
                if n not in ds:
                    ck.finding('C20.R1', gk, f"missing:{part[1]}:{n}", f"{struct}::generate ({part[1]} label) never writes field {n}")
        if kind in ('CompletePkt', 'FirstFragPkt') and len(seen) < 4:
            ck.finding('C20.R1', gk, 'label-kinds', f"{struct}::generate: only {len(seen)} label kinds reach the writes")
        # header arguments: kind constant, label type of the struct's label, gse_len field
        for r in a.events('call'):
            if r.data[1] != GEN_HDR:
                continue
            hp = hdr_cell(a, f, r)
            if hp is not None:
                utils_cells.add(hp)
            g = r.data[3][2]
            ck.obligations += 1
            if g == fld['gse_len']:
                ck.discharged += 1
            else:
                ck.finding('C20.R1', gk, 'header-length', f"{struct}::generate does not pass its gse_len field to the header", r.site)
        # ------------------------------------------------------------ parse
        pk = find_body(f, struct, 'parse')

        def after_hdr(I, w, frame, site, args, rv):
            w.mem[('G', 'hdr')] = rv
        p = ck.analyse(pk, {'kslots': 8, 'ret_hooks': {RGH: after_hdr}})
        buf = p.arg('buffer')
        for w, rv in p.rets:
            h = ghost(w, 'hdr')
            for v, fs in (ret_alts(rv) or []):
                if h is None or h[0] != 'enum' or len(h[1]) != 1 or h[1][0][0] != 1:
                    continue
                tup = h[1][0][1][0]
                kn = f.variant_name(PKT, tup[1][1][1][0][0])
                ln_ = f.variant_name(LT, tup[1][2][1][0][0])
                gl = tup[1][0][1]
                L = LABEL_LEN[ln_]
                npar += 1
                ck.obligations += 1
                if v == 1:
                    if kn == kind:
                        ck.finding('C20.R2', pk, f"rejects-own-kind:{ln_}", f"{struct}::parse returns Err for a {kn} packet")
                    else:
                        ck.discharged += 1
                    continue
                if kn != kind:
                    ck.finding('C20.R2', pk, f"accepts:{kn}", f"{struct}::parse accepts a {kn} packet")
                    continue
                st = fs[0]
                if st[0] != 'agg':
                    ck.finding('C20.R2', pk, 'shape', f"{struct}::parse: result not recognisable")
                    continue
                got = {n: st[1][i] for i, n in enumerate(fnames)}
                bad = []
                hdr_end = {'CompletePkt': 4 + L, 'FirstFragPkt': 7 + L, 'IntermediateFragPkt': 3, 'EndFragPkt': 3}[kind]
                if not (got['gse_len'][0] == 'int' and w.store.entails_eq(got['gse_len'][1], gl)):
                    bad.append('gse_len')
                if 'frag_id' in got and not is_be(got['frag_id'], buf, 2, 1, w):
                    bad.append('frag_id')
                if 'total_length' in got and not is_be(got['total_length'], buf, 3, 2):
                    bad.append('total_length')
                if 'protocol_type' in got and not is_be(got['protocol_type'], buf, 2 if kind == 'CompletePkt' else 5, 2):
                    bad.append('protocol_type')
                if 'label' in got and not label_ok(got['label'], buf, 4 if kind == 'CompletePkt' else 7, L, f, ln_):
                    bad.append('label')
                pd = got['pdu']
                end = gl + 2 - (4 if kind == 'EndFragPkt' else 0)
                if not (pd[0] == 'slice' and pd[1] == buf[1] and w.store.entails_eq(pd[2], Lin.c(hdr_end)) and w.store.entails_eq(pd[2] + pd[3], end)):
                    bad.append('pdu')
                if 'crc' in got:
                    ok = False
                    cv = got['crc']
                    if cv[0] == 'int' and len(cv[1].terms) == 1:
                        d = ATOMS.info(cv[1].terms[0][0]).defn
                        ok = bool(d) and d[0] == 'be' and d[1] == buf[1] and d[3] == 4 and w.store.entails_eq(d[2], gl + 2 - 4)
                    if not ok:
                        bad.append('crc')
                if bad:
                    ck.finding('C20.R2', pk, f"fields:{ln_}:{bad}", f"{struct}::parse ({ln_} label): field(s) {bad} are not read from the place the layout puts them")
                else:
                    ck.discharged += 1
                ck.sample({'struct': struct, 'label type': ln_, 'parsed fields at layout offsets': not bad})
    # ---- R3: "the generated bytes are exactly what the encapsulator emits": both sides hand the same (kind, label type) cells to
    # the shared header encoder - in particular the label-type bits of the label-less intermediate and end packets agree
    from rules import c09
    enc_cells = set()
    for wname in c09.WRITERS:
        wa = analyse_writer(ck, ENC + wname, extra=c09.ENCCFG)
        for r in wa.events('call'):
            if r.data[1] == GEN_HDR:
                hp = hdr_cell(wa, f, r)
                if hp is not None:
                    enc_cells.add(hp)
    ck.obligations += 1
    if utils_cells and utils_cells == enc_cells:
        ck.discharged += 1
    else:
        for kn, ln_ in sorted(utils_cells - enc_cells):
            ck.finding('C20.R3', 'utils', f"cell-only-utils:{kn}:{ln_}", f"utils generate builds a ({kn}, label type {ln_}) header, the encapsulator never does")
        for kn, ln_ in sorted(enc_cells - utils_cells):
            ck.finding('C20.R3', 'utils', f"cell-only-encap:{kn}:{ln_}", f"the encapsulator builds a ({kn}, label type {ln_}) header, utils generate never does: the bytes differ in the label-type bits")
    ck.rule('C20.R3 (kind, label type) header cells of utils generate and of the encapsulator compared', len(utils_cells) + len(enc_cells), 16)
    ck.rule('C20.R1 writes of the four generate functions classified against the layout', ngen, 30)
    ck.rule('C20.R2 return paths of the four parse functions by header cell', npar, 30)
    ck.assumptions += ['the inverse property (parse(generate(x)) == x for well-formed x, generate = what the encapsulator emits) follows from both sides matching the same ETSI table that C06 checks the encapsulator against and C01/C02 the decapsulator',
                       'parse may panic on buffers shorter than the announced packet: outside the statement (well-formed descriptions)']
    return ck.finish(
        level='other',
        explanation=('Layout agreement: the writes of the four utils generate functions (offset, length, provenance of the bytes) and the reads of the '
                     'four parse functions (provenance of every returned field) are computed by abstract interpretation per label type and compared '
                     'with the ETSI field table that the encapsulator (C06) and decapsulator are checked against; generate passes its kind constant, '
                     "the label's type and its gse_len to the shared header encoder; parse accepts exactly its own kind."),
        trusted=['analysis/stdsum.py'])


def hdr_cell(a, f, r):
    """(kind name, label type name) handed to generate_gse_header at this call, when both are decided"""
    W = r.data[5]
    kv = a.I.read(W, r.data[3][0][1]) if r.data[3][0][0] == 'ref' else None
    lv = a.I.read(W, r.data[3][1][1]) if r.data[3][1][0] == 'ref' else None
    if kv is None or lv is None or kv[0] != 'enum' or lv[0] != 'enum' or len(kv[1]) != 1 or len(lv[1]) != 1:
        return None
    return (f.variant_name(PKT, kv[1][0][0]), f.variant_name(LT, lv[1][0][0]))


def classify(a, W, src, fld, self_root, fnames):
    if src[0] == 'arr':
        content = src[1]
        base = src[4] if len(src) > 4 else None
        if content[0] == 'be':
            X, n = content[1], content[2]
            hv = ghost(W, 'hdr_val')
            if hv is not None and hv[0] == 'int' and X == hv[1] and n == 2:
                return 'header'
            for name, dn in (('frag_id', 1), ('total_length', 2), ('protocol_type', 2), ('crc', 4)):
                if name in fld and fld[name][0] == 'int' and X == fld[name][1] and n == dn:
                    return {'total_length': 'total_len', 'protocol_type': 'ptype'}.get(name, name)
            return f"be?{X.pretty()}"
        if base is not None and base.root == self_root and 'label' in fnames and base.path[:1] == (('f', fnames.index('label')),):
            return 'label'
        if content[0] == 'elems' and not content[1]:
            return 'label'
        if content[0] == 'elems' and len(content[1]) == 1 and 'frag_id' in fld and content[1][0] == fld['frag_id']:
            return 'frag_id'          # `[self.frag_id]` instead of `self.frag_id.to_be_bytes()`
        return 'arr?'
    if src[0] == 'seq':
        return 'pdu'
    return '?'


def is_be(v, buf, off, n, w=None):
    if v[0] != 'int' or len(v[1].terms) != 1 or v[1].const != 0:
        return False
    d = ATOMS.info(v[1].terms[0][0]).defn
    if n == 1 and d and d[0] == 'elem' and w is not None:
        # a single byte read by plain indexing / a slice pattern: the cell buffer[off]
        sv = w.mem.get(buf[1].root)
        return bool(sv) and sv[0] == 'seq' and d[1] == sv[4] and d[2] == Lin.c(off) and not buf[1].path and buf[1].root not in w.written
    return bool(d) and d[0] == 'be' and d[1] == buf[1] and d[2] == Lin.c(off) and d[3] == n


def label_ok(lab, buf, off, L, f, ln):
    if lab[0] != 'enum' or len(lab[1]) != 1 or f.variant_name('label::Label', lab[1][0][0]) != ln:
        return False
    if L == 0:
        return True
    arr = lab[1][0][1][0]
    return arr[0] == 'arr' and arr[1] == L and arr[2][0] == 'bytes_of' and arr[2][1] == buf[1] and arr[2][2] == Lin.c(off)
