import sys, time
from mirlib import Facts, pp_span
from absint import Interp
from lin import STATS
f = Facts(sys.argv[1])
for pat in sys.argv[2:]:
    for b in f.find(pat):
        if b.derived: continue
        t=time.time()
        I = Interp(f, {'kslots': int(__import__('os').environ.get('K','2')), 'decline_loop_obligations_in': {'gse_encap::Encapsulator::encap_ext'}})
        rets = I.run_root(b)
        print(f"=== {b.key}: {len(rets)} return worlds, {time.time()-t:.2f}s stats={ {k:(len(v) if isinstance(v,set) else v) for k,v in I.stats.items()} } fm={STATS}")
        seen=set()
        for r in I.all_records():
            if r.kind=='ob' and not r.data['ok'] and not r.data.get('declined'):
                k=(r.site,r.data['desc'])
                if k in seen: continue
                seen.add(k)
                print(f"  FAIL {r.site[0].split('::')[-1]} bb{r.site[1]} L{r.site[3]} [{r.data['okind']}] {r.data['desc']}  needs={r.data.get('needs')} state={r.data.get('state')} ctx={[ (c[0].split('::')[-1],c[1]) for c in r.ctx]} part={r.data.get('part')}")
        nob=sum(1 for r in I.all_records() if r.kind=='ob')
        nok=sum(1 for r in I.all_records() if r.kind=='ob' and r.data['ok'])
        ndec=sum(1 for r in I.all_records() if r.kind=='ob' and r.data.get('declined'))
        print(f"  obligations {nob} ok {nok} declined {ndec}; unmodelled={I.unmodelled}")
