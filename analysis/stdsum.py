"""Trusted summaries of the core/alloc functions the crate calls (DESIGN section 4.2).

Each summary takes the interpreter, the world, the evaluated arguments and returns a list of
(world, return value) outcomes; it may raise obligations (preconditions whose violation
panics).  A callee not listed here is unknown (result top) and counted as unmodelled.
"""
from lin import Lin, ATOMS, le, lt
from values import Loc, Obj, TY, reg_ty, UNIT, MOVED, TRUE, FALSE, vint, vbool
import absint as AI

PANICS = ('core::panicking::', 'std::rt::panic_fmt', 'std::rt::begin_panic', 'std::panicking::',
          'core::panicking::panic', 'core::option::unwrap_failed', 'core::result::unwrap_failed',
          'core::option::expect_failed', 'core::slice::index::slice_', 'core::panic')


def is_panic(key):
    return key.startswith(PANICS)


def content_of(I, w, sl):
    """provenance of the bytes a slice value covers"""
    base, start, ln = sl[1], sl[2], sl[3]
    try:
        bv = I.read(w, base)
    except AI.AnalysisError:
        bv = None
    if bv is not None and bv[0] == 'arr':
        return ('arr', bv[2], start, ln, base)
    return ('seq', base, start, ln)


def _int_ty_of(term):
    return term['dest_ty']


def dispatch(I, w, frame, site, fn, key, args, term):
    h = TABLE.get(key)
    if h is None and fn.get('trait') and not fn.get('resolved'):
        return trait_call(I, w, frame, site, fn, key, args, term)
    if h is None and 'std::cmp::PartialEq>::eq' in key:
        h = s_eq
    if h is None:
        return None
    return h(I, w, frame, site, fn, args, term)


def trait_call(I, w, frame, site, fn, key, args, term):
    dty = term['dest_ty']
    method = fn.get('method')
    if dty['k'] == 'int':
        a = ATOMS.fresh(method, *AI.int_range(dty), defn=('traitcall', key, tuple(args)))
        return [(w, ('int', Lin.atom(a)))]
    res = I.deep_expand(w, ('top', reg_ty(dty), ('trait', key, site[:3]), f"{method}()"), keyed=(tuple(c[:3] for c in frame.ctx), site[:3]))
    hook = I.cfg.get('trait_result_hooks', {}).get(key)
    if hook:
        res = hook(I, w, frame, site, args, res) or res
    return [(w, res)]


# ---------------------------------------------------------------- slices
def s_len(I, w, frame, site, fn, args, term):
    a = args[0]
    if a[0] == 'slice':
        return [(w, ('int', a[3]))]
    return [(w, I.fresh_int(w, term['dest_ty'], 'len'))]


def _range_bounds(I, w, rty, rv, ln):
    """(from, to) Lins relative to the slice start for a range value of type rty"""
    name = rty.get('name', '')
    if rv[0] != 'agg':
        return None
    f = rv[1]
    if name == 'std::ops::Range':
        return f[0][1], f[1][1]
    if name == 'std::ops::RangeTo':
        return Lin.c(0), f[0][1]
    if name == 'std::ops::RangeFrom':
        return f[0][1], ln
    if name == 'std::ops::RangeFull':
        return Lin.c(0), ln
    return None


def s_index(I, w, frame, site, fn, args, term):
    s, r = args[0], args[1]
    rty = term['arg_tys'][1]
    if s[0] != 'slice':
        return None
    base, start, ln = s[1], s[2], s[3]
    if rty['k'] == 'int':
        if r[0] != 'int':
            return None
        I.obligation(w, frame, site, 'index', [le(Lin.c(0), r[1]), lt(r[1], ln)],
                     f"index {r[1].pretty()} < len {ln.pretty()}")
        split = _small_table_split(I, w, base, start, r[1], ln)
        if split is not None:
            return [(wk, ('ref', base.ext(('i', Lin.c(k))))) for k, wk in split]
        return [(w, ('ref', base.ext(('i', start + r[1]))))]
    b = _range_bounds(I, w, rty, r, ln)
    if b is None:
        return None
    lo, hi = b
    I.obligation(w, frame, site, 'slice-range', [le(lo, hi), le(hi, ln)],
                 f"range {lo.pretty()}..{hi.pretty()} within len {ln.pretty()}",
                 {'range': (lo, hi), 'of': (base, start, ln)})
    sh = I.cfg.get('slice_hook')
    if sh:
        sh(I, w, frame, site, base, start + lo, start + hi)      # absolute window [from, to) of the object `base`
    return [(w, ('slice', base, start + lo, hi - lo))]


def _small_table_split(I, w, base, start, idx, ln):
    """a constant table of at most 8 non-integer entries (`[Option<usize>; 6]`) indexed by a symbolic value: one world per
    entry the index can denote, [(k, world with index == k)]; None when this is not such a table"""
    if idx.is_const() or start != Lin.c(0) or base.path or base.root[0] != 'K':
        return None
    try:
        bv = I.read(w, base)
    except AI.AnalysisError:
        return None
    if bv[0] != 'arr' or bv[2][0] != 'elems' or not (2 <= bv[1] <= 8) or all(e[0] == 'int' for e in bv[2][1]):
        return None
    out = []
    for k in range(bv[1]):
        wk = w.fork()
        if I.assume(wk, ('cmp', 'eq', idx, Lin.c(k)), True):
            out.append((k, wk))
    return out


def s_slice_get(I, w, frame, site, fn, args, term):
    # `slice.get(i)` / `slice.get(a..b)`: the checked form of indexing - None exactly where `slice[..]` would panic
    s, r = args[0], args[1]
    rty = term['arg_tys'][1]
    if s[0] != 'slice':
        return None
    base, start, ln = s[1], s[2], s[3]
    if rty['k'] == 'int':
        if r[0] != 'int':
            return None
        split = _small_table_split(I, w, base, start, r[1], ln)
        if split is not None:
            out = [(wk, ('enum', ((1, (('ref', base.ext(('i', Lin.c(k)))),)),))) for k, wk in split]
            w2 = w.fork()
            if I.assume(w2, ('cmp', 'le', ln, r[1]), True):
                out.append((w2, ('enum', ((0, ()),))))
            return out
        lo, hi, some = r[1], r[1] + 1, ('ref', base.ext(('i', start + r[1])))
    else:
        b = _range_bounds(I, w, rty, r, ln)
        if b is None:
            return None
        lo, hi = b
        some = ('slice', base, start + lo, hi - lo)
    out = []
    w1 = w.fork()
    if I.assume(w1, ('cmp', 'le', lo, hi), True) and I.assume(w1, ('cmp', 'le', hi, ln), True):
        if rty['k'] != 'int':
            sh = I.cfg.get('slice_hook')
            if sh:
                sh(I, w1, frame, site, base, start + lo, start + hi)
        out.append((w1, ('enum', ((1, (some,)),))))
    for bad in (('cmp', 'lt', ln, hi), ('cmp', 'lt', hi, lo)):
        w2 = w.fork()
        if I.assume(w2, bad, True):
            out.append((w2, ('enum', ((0, ()),))))
    return out


def s_copy_from_slice(I, w, frame, site, fn, args, term):
    d, s = args[0], args[1]
    if d[0] != 'slice' or s[0] != 'slice':
        return None
    I.obligation(w, frame, site, 'copy-len', [le(d[3], s[3]), le(s[3], d[3])],
                 f"copy_from_slice: dst len {d[3].pretty()} == src len {s[3].pretty()}")
    src = content_of(I, w, s)
    I.rec(frame, site[1], 'event', site, ('write', d[1], d[2], d[3], src, I.partition(w), w.fork()))
    wh = I.cfg.get('write_hook')
    if wh:
        wh(I, w, frame, site, d[1], d[2], d[3], src)
    root = d[1].root
    w.written = w.written | {root}
    if not d[1].path and root in w.mem and w.mem[root][0] == 'seq' and w.mem[root][3]:
        v = w.mem[root]
        w.mem[root] = ('seq', v[1], v[2], (), v[4], v[5])
    return [(w, UNIT)]


def s_last(I, w, frame, site, fn, args, term):
    s = args[0]
    if s[0] != 'slice':
        return None
    out = []
    w1 = w.fork()
    if I.assume(w1, ('cmp', 'eq', s[3], Lin.c(0)), True):
        out.append((w1, ('enum', ((0, ()),))))
    w2 = w.fork()
    if I.assume(w2, ('cmp', 'lt', Lin.c(0), s[3]), True):
        out.append((w2, ('enum', ((1, (('ref', s[1].ext(('i', s[2] + s[3] - 1))),)),))))
    return out


def s_first(I, w, frame, site, fn, args, term):
    s = args[0]
    if s[0] != 'slice':
        return None
    out = []
    w1 = w.fork()
    if I.assume(w1, ('cmp', 'eq', s[3], Lin.c(0)), True):
        out.append((w1, ('enum', ((0, ()),))))
    w2 = w.fork()
    if I.assume(w2, ('cmp', 'lt', Lin.c(0), s[3]), True):
        out.append((w2, ('enum', ((1, (('ref', s[1].ext(('i', s[2]))),)),))))
    return out


def s_slice_contains(I, w, frame, site, fn, args, term):
    # `TABLE.contains(&x)` on a constant table of at most 8 integers: one world per entry x may equal, one where it equals none
    s, r = args[0], args[1]
    if s[0] != 'slice' or r[0] != 'ref' or s[2] != Lin.c(0) or s[1].path:
        return None
    try:
        tv = I.read(w, s[1])
        x = I.read(w, r[1])
    except AI.AnalysisError:
        return None
    if tv[0] != 'arr' or tv[2][0] != 'elems' or not (1 <= tv[1] <= 8) or s[3] != Lin.c(tv[1]) or x[0] != 'int':
        return None
    if not all(e[0] == 'int' and e[1].is_const() for e in tv[2][1]):
        return None
    vals = sorted({e[1].const for e in tv[2][1]})
    out = []
    for v_ in vals:
        wk = w.fork()
        if I.assume(wk, ('cmp', 'eq', x[1], Lin.c(v_)), True):
            out.append((wk, TRUE))
    wn = w.fork()
    if all(I.assume(wn, ('cmp', 'eq', x[1], Lin.c(v_)), False) for v_ in vals):
        out.append((wn, FALSE))
    return out


def s_slice_is_empty(I, w, frame, site, fn, args, term):
    s = args[0]
    if s[0] != 'slice':
        return None
    return [(w, ('bool', ('cmp', 'eq', s[3], Lin.c(0))))]


def s_split_at(I, w, frame, site, fn, args, term):
    # slice.split_at(mid) / split_at_mut(mid): panics if mid > len; the two halves tile the slice
    s, m = args[0], args[1]
    if s[0] != 'slice' or m[0] != 'int':
        return None
    I.obligation(w, frame, site, 'slice-range', [le(Lin.c(0), m[1]), le(m[1], s[3])],
                 f"split_at {m[1].pretty()} within len {s[3].pretty()}", {'range': (Lin.c(0), m[1]), 'of': (s[1], s[2], s[3])})
    return [(w, ('agg', (('slice', s[1], s[2], m[1]), ('slice', s[1], s[2] + m[1], s[3] - m[1]))))]


def s_split_first(I, w, frame, site, fn, args, term):
    s = args[0]
    if s[0] != 'slice':
        return None
    out = []
    w1 = w.fork()
    if I.assume(w1, ('cmp', 'eq', s[3], Lin.c(0)), True):
        out.append((w1, ('enum', ((0, ()),))))
    w2 = w.fork()
    if I.assume(w2, ('cmp', 'lt', Lin.c(0), s[3]), True):
        out.append((w2, ('enum', ((1, (('agg', (('ref', s[1].ext(('i', s[2]))), ('slice', s[1], s[2] + 1, s[3] - 1))),)),))))
    return out


def s_split_last(I, w, frame, site, fn, args, term):
    s = args[0]
    if s[0] != 'slice':
        return None
    out = []
    w1 = w.fork()
    if I.assume(w1, ('cmp', 'eq', s[3], Lin.c(0)), True):
        out.append((w1, ('enum', ((0, ()),))))
    w2 = w.fork()
    if I.assume(w2, ('cmp', 'lt', Lin.c(0), s[3]), True):
        out.append((w2, ('enum', ((1, (('agg', (('ref', s[1].ext(('i', s[2] + s[3] - 1))), ('slice', s[1], s[2], s[3] - 1))),)),))))
    return out


def _chunk_len(ty):
    """N of the first `&[T; N]` found in a (nested) type description"""
    if not isinstance(ty, dict):
        return None
    if ty.get('k') == 'ref' and isinstance(ty.get('to'), dict) and ty['to'].get('k') == 'array':
        return ty['to'].get('len')
    for sub in list(ty.get('args') or []) + list(ty.get('of') or [] if isinstance(ty.get('of'), list) else []):
        n = _chunk_len(sub)
        if n is not None:
            return n
    return None


def s_first_chunk(I, w, frame, site, fn, args, term, with_rest=False):
    # `slice.first_chunk::<N>()` / `split_first_chunk::<N>()`: Some(&[T; N] over the first N elements [, the rest]) when len >= N.
    # The array behind the reference is an anonymous object holding "the bytes of that window" (as `try_into` of the window gives)
    s = args[0]
    n = _chunk_len(term['dest_ty'])
    if s[0] != 'slice' or n is None:
        return None
    out = []
    w1 = w.fork()
    if I.assume(w1, ('cmp', 'lt', s[3], Lin.c(n)), True):
        out.append((w1, ('enum', ((0, ()),))))
    w2 = w.fork()
    if I.assume(w2, ('cmp', 'le', Lin.c(n), s[3]), True):
        root = ('O', Obj.fresh())
        w2.mem[root] = ('arr', n, ('bytes_of', s[1], s[2]))
        w2.names[root] = f"{w2.name_of(s[1].root)}[{s[2].pretty()}..+{n}]"
        chunk = ('ref', Loc(root))
        some = ('agg', (chunk, ('slice', s[1], s[2] + n, s[3] - n))) if with_rest else chunk
        out.append((w2, ('enum', ((1, (some,)),))))
    return out


def s_split_last_chunk(I, w, frame, site, fn, args, term):
    # `slice.split_last_chunk::<N>()`: Some((the rest, &[T; N] over the last N elements)) when len >= N
    s = args[0]
    n = _chunk_len(term['dest_ty'])
    if s[0] != 'slice' or n is None:
        return None
    out = []
    w1 = w.fork()
    if I.assume(w1, ('cmp', 'lt', s[3], Lin.c(n)), True):
        out.append((w1, ('enum', ((0, ()),))))
    w2 = w.fork()
    if I.assume(w2, ('cmp', 'le', Lin.c(n), s[3]), True):
        root = ('O', Obj.fresh())
        w2.mem[root] = ('arr', n, ('bytes_of', s[1], s[2] + s[3] - n))
        w2.names[root] = f"{w2.name_of(s[1].root)}[{(s[2] + s[3] - n).pretty()}..+{n}]"
        out.append((w2, ('enum', ((1, (('agg', (('slice', s[1], s[2], s[3] - n), ('ref', Loc(root)))),)),))))
    return out


def s_split_first_chunk(I, w, frame, site, fn, args, term):
    return s_first_chunk(I, w, frame, site, fn, args, term, with_rest=True)


def s_iter(I, w, frame, site, fn, args, term):
    s = args[0]
    if s[0] == 'ref':
        v = I.read(w, s[1])
        if v[0] == 'vec':
            return [(w, ('iter', Loc(v[1]), Lin.c(0), I.seq_len(w, v[1])))]
    if s[0] != 'slice':
        return None
    return [(w, ('iter', s[1], s[2], s[2] + s[3]))]


def s_iter_next(I, w, frame, site, fn, args, term):
    r = args[0]
    if r[0] != 'ref':
        return None
    it = I.read(w, r[1])
    if it[0] != 'iter':
        return None
    out = []
    w1 = w.fork()
    if I.assume(w1, ('cmp', 'le', it[3], it[2]), True):
        out.append((w1, ('enum', ((0, ()),))))
    w2 = w.fork()
    if I.assume(w2, ('cmp', 'lt', it[2], it[3]), True):
        I.write(w2, r[1], ('iter', it[1], it[2] + 1, it[3]))
        out.append((w2, ('enum', ((1, (('ref', it[1].ext(('i', it[2]))),)),))))
    return out


def s_skip(I, w, frame, site, fn, args, term):
    # `slice.iter().skip(n)`: the same iterator n elements further (or exhausted).  `Skip` is lazy, but a slice iterator has no
    # side effect, so advancing at once is indistinguishable
    it, n = args[0], args[1]
    if it[0] != 'iter' or len(it) != 4 or n[0] != 'int':
        return None
    out = []
    w1 = w.fork()
    if I.assume(w1, ('cmp', 'le', it[2] + n[1], it[3]), True):
        out.append((w1, ('iter', it[1], it[2] + n[1], it[3])))
    w2 = w.fork()
    if I.assume(w2, ('cmp', 'lt', it[3], it[2] + n[1]), True):
        out.append((w2, ('iter', it[1], it[3], it[3])))
    return out


def s_enumerate(I, w, frame, site, fn, args, term):
    it = args[0]
    if it[0] != 'iter' or len(it) != 4:
        return None
    return [(w, ('agg', (it, ('int', Lin.c(0)))))]


def s_enumerate_next(I, w, frame, site, fn, args, term):
    # Enumerate over a slice iterator: (count, &element), count advancing with the iterator
    r = args[0]
    if r[0] != 'ref':
        return None
    z = I.read(w, r[1])
    if z[0] != 'agg' or len(z[1]) != 2 or z[1][0][0] != 'iter' or z[1][1][0] != 'int':
        return None
    it, n = z[1]
    out = []
    w1 = w.fork()
    if I.assume(w1, ('cmp', 'le', it[3], it[2]), True):
        out.append((w1, ('enum', ((0, ()),))))
    w2 = w.fork()
    if I.assume(w2, ('cmp', 'lt', it[2], it[3]), True):
        I.write(w2, r[1], ('agg', (('iter', it[1], it[2] + 1, it[3]), ('int', n[1] + 1))))
        out.append((w2, ('enum', ((1, (('agg', (('int', n[1]), ('ref', it[1].ext(('i', it[2]))))),)),))))
    return out


def s_zip(I, w, frame, site, fn, args, term):
    a, b = args[0], args[1]
    if a[0] != 'iter' or b[0] != 'iter' or len(a) != 4 or len(b) != 4:
        return None
    return [(w, ('agg', (a, b)))]


def s_zip_next(I, w, frame, site, fn, args, term):
    # Zip of two slice iterators: a pair while both have an element left, None afterwards (the adaptor's side-effect subtleties
    # do not exist for slice iterators)
    r = args[0]
    if r[0] != 'ref':
        return None
    z = I.read(w, r[1])
    if z[0] != 'agg' or len(z[1]) != 2 or z[1][0][0] != 'iter' or z[1][1][0] != 'iter':
        return None
    a, b = z[1]
    out = []
    for exhausted in (('cmp', 'le', a[3], a[2]), ('cmp', 'le', b[3], b[2])):
        w1 = w.fork()
        if I.assume(w1, exhausted, True):
            out.append((w1, ('enum', ((0, ()),))))
    w2 = w.fork()
    if I.assume(w2, ('cmp', 'lt', a[2], a[3]), True) and I.assume(w2, ('cmp', 'lt', b[2], b[3]), True):
        I.write(w2, r[1], ('agg', (('iter', a[1], a[2] + 1, a[3]), ('iter', b[1], b[2] + 1, b[3]))))
        out.append((w2, ('enum', ((1, (('agg', (('ref', a[1].ext(('i', a[2]))), ('ref', b[1].ext(('i', b[2]))))),)),))))
    return out


def s_array_into_iter(I, w, frame, site, fn, args, term):
    # `for x in [a, b, c]`: the array is moved into an iterator that hands its elements out by value, in order
    a = args[0]
    if a[0] != 'arr' or a[2][0] != 'elems' or len(a[2][1]) != a[1]:
        return None
    root = ('O', Obj.fresh())
    ety = term['arg_tys'][0]['of'] if term.get('arg_tys') and term['arg_tys'][0].get('k') == 'array' else None
    w.mem[root] = ('seq', Lin.c(a[1]), reg_ty(ety) if ety else None, tuple((Lin.c(i), v) for i, v in enumerate(a[2][1])), ('array-into-iter', root[1]), Lin.c(a[1]))
    return [(w, ('iter', Loc(root), Lin.c(0), Lin.c(a[1]), 'by-value'))]


def s_array_iter_next(I, w, frame, site, fn, args, term):
    r = args[0]
    if r[0] != 'ref':
        return None
    it = I.read(w, r[1])
    if it[0] != 'iter' or len(it) < 5 or not it[2].is_const() or not it[3].is_const():
        return None
    if it[2].const >= it[3].const:
        return [(w, ('enum', ((0, ()),)))]
    v = I.read(w, it[1].ext(('i', it[2])))
    I.write(w, r[1], ('iter', it[1], it[2] + 1, it[3], 'by-value'))
    return [(w, ('enum', ((1, (v,)),)))]


def s_range_next(I, w, frame, site, fn, args, term):
    r = args[0]
    if r[0] != 'ref':
        return None
    rg = I.read(w, r[1])
    if rg[0] != 'agg' or rg[1][0][0] != 'int' or rg[1][1][0] != 'int':
        return None
    st, en = rg[1][0][1], rg[1][1][1]
    out = []
    w1 = w.fork()
    if I.assume(w1, ('cmp', 'le', en, st), True):
        out.append((w1, ('enum', ((0, ()),))))
    w2 = w.fork()
    if I.assume(w2, ('cmp', 'lt', st, en), True):
        I.write(w2, r[1], ('agg', (('int', st + 1), ('int', en))))
        out.append((w2, ('enum', ((1, (('int', st),)),))))
    return out


def s_identity(I, w, frame, site, fn, args, term):
    return [(w, args[0])]


def s_unit(I, w, frame, site, fn, args, term):
    # optimisation hints without effect (cold_path, assume, assert_unchecked)
    return [(w, AI.UNIT)]


def s_fold(I, w, frame, site, fn, args, term):
    dty = term['dest_ty']
    it = args[0]
    if it[0] == 'iter' and it[2].is_const() and it[3].is_const() and 0 <= it[3].const - it[2].const <= 8 and len(args) == 3:
        clo = args[2]
        cty = term['arg_tys'][2] if len(term.get('arg_tys', [])) > 2 else None
        body = I.facts.bodies.get(cty.get('name')) if cty and cty.get('k') == 'closure' else None
        if body is None and cty and cty.get('k') == 'closure':
            # a closure made by an adaptor of core (`map(f).sum()` folds with `map_fold(f, add)`): its monomorphised body was
            # dumped with the other core callees; taken only when there is exactly one instance of it
            tail = cty.get('name', '?').split('::', 1)[-1]            # `std::..` in type names, `core::..` in definition paths
            cands = [b for b in I.facts.ext.values() if b.key.startswith('ext:') and b.key.split('::', 1)[-1] == tail]
            body = cands[0] if len(cands) == 1 else None
        if body is not None:
            worlds = [(w, args[1])]
            for i in range(it[2].const, it[3].const):
                nxt = []
                for (wi, acc) in worlds:
                    elem = ('ref', it[1].ext(('i', Lin.c(i))))
                    for (wo, rv) in I.call_closure(wi, frame, site[1], site, body, [clo, ('agg', (acc, elem))]):
                        nxt.append((wo, rv))
                worlds = nxt
                if len(worlds) > 16:
                    worlds = None
                    break
            if worlds is not None:
                return worlds
    if dty['k'] == 'int':
        a = ATOMS.fresh('fold', *AI.int_range(dty), defn=('fold', tuple(args)))
        I.loop_atoms.add(a)        # a quantity accumulated over a list, like a loop-carried sum (see decline_loop_obligations_in)
        return [(w, ('int', Lin.atom(a)))]
    return None


# ---------------------------------------------------------------- integers / bytes
def s_from_be_bytes(I, w, frame, site, fn, args, term):
    dty = term['dest_ty']
    a = args[0]
    lo, hi = AI.int_range(dty)
    if a[0] == 'arr':
        c = a[2]
        if c[0] == 'bytes_of' and c[1].root not in w.written:
            key = ('be', c[1], c[2], a[1])
            nm = f"be{a[1]*8}({w.name_of(c[1].root)}[{c[2].pretty()}..])"
            at = ATOMS.fresh(nm, lo, hi, defn=key, key=key)
            return [(w, ('int', Lin.atom(at)))]
        if c[0] == 'be':      # from_be_bytes(x.to_be_bytes())
            return [(w, ('int', c[1]))]
        if c[0] == 'elems' and len(c[1]) == a[1] and all(e[0] == 'int' for e in c[1]):
            # [buf[k], buf[k+1], ..]: the same big-endian word a slice-based read of buf[k..k+n] denotes; use the same atom
            els = [e[1] for e in c[1]]
            word = Lin.c(0)
            for e in els:
                word = word.scale(256) + e
            infos = [ATOMS.info(e.terms[0][0]).defn if (len(e.terms) == 1 and e.const == 0 and e.terms[0][1] == 1) else None for e in els]
            if all(d and d[0] == 'elem' and d[1] == infos[0][1] for d in infos) and \
                    all(infos[i][2] == infos[0][2] + i for i in range(len(infos))):
                tag = infos[0][1]
                roots = [r for r, v in w.mem.items() if v[0] == 'seq' and v[4] == tag]
                if len(roots) == 1 and roots[0] not in w.written:
                    key = ('be', Loc(roots[0]), infos[0][2], a[1])
                    nm = f"be{a[1]*8}({w.name_of(roots[0])}[{infos[0][2].pretty()}..])"
                    at = ATOMS.fresh(nm, lo, hi, defn=key, key=key)
                    w.store = w.store.add_eq(Lin.atom(at), word)
                    return [(w, ('int', Lin.atom(at)))]
            if all(w.store.entails(le(Lin.c(0), e)) and w.store.entails(le(e, Lin.c(255))) for e in els):
                return [(w, ('int', word))]
    at = ATOMS.fresh('from_be', lo, hi, defn=('be_unknown', a))
    return [(w, ('int', Lin.atom(at)))]


def s_to_be_bytes(I, w, frame, site, fn, args, term):
    a = args[0]
    n = term['dest_ty']['len']
    if a[0] == 'int':
        return [(w, ('arr', n, ('be', a[1], n)))]
    return [(w, ('arr', n, ('unknown', Obj.fresh(), 'to_be')))]


def s_try_into(I, w, frame, site, fn, args, term):
    targs = fn.get('targs', [])
    a = args[0]
    if len(targs) < 2:
        return None
    T, U = targs[0], targs[1]
    if U['k'] == 'array' and a[0] == 'slice' and U.get('len') is not None:
        n = U['len']
        okv = ('enum', ((0, (('arr', n, ('bytes_of', a[1], a[2])),)),))
        errv = ('enum', ((1, (('top', None, 'TryFromSliceError', 'e'),)),))
        out = []
        w1 = w.fork()
        if I.assume(w1, ('cmp', 'eq', a[3], Lin.c(n)), True):
            out.append((w1, okv))
        d = I.decide(w, ('cmp', 'eq', a[3], Lin.c(n)))
        if d is not True:
            w2 = w.fork()
            if I.assume(w2, ('cmp', 'eq', a[3], Lin.c(n)), False):
                out.append((w2, errv))
        return out
    if U['k'] == 'int' and a[0] == 'int':
        lo, hi = AI.int_range(U)
        out = []
        w1 = w.fork()
        if I.assume(w1, ('and', ('cmp', 'le', Lin.c(lo), a[1]), ('cmp', 'le', a[1], Lin.c(hi))), True):
            out.append((w1, ('enum', ((0, (a,)),))))
        if not I.in_range(w, a[1], lo, hi):
            w2 = w.fork()
            out.append((w2, ('enum', ((1, (('top', None, 'TryFromIntError', 'e'),)),))))
        return out
    return None


def s_try_from(I, w, frame, site, fn, args, term):
    # <[T; N] as TryFrom<&[T]>>::try_from(slice): the same conversion as slice.try_into(), target taken from the result type
    dty = term['dest_ty']
    if dty.get('k') == 'adt' and dty.get('args') and dty['args'][0].get('k') in ('array', 'int'):
        fn2 = dict(fn)
        fn2['targs'] = [term['arg_tys'][0] if term.get('arg_tys') else {'k': '?'}, dty['args'][0]]
        return s_try_into(I, w, frame, site, fn2, args, term)
    return None


def s_into(I, w, frame, site, fn, args, term):
    targs = fn.get('targs', [])
    a = args[0]
    if len(targs) >= 2 and targs[1].get('name') == 'std::vec::Vec' and a[0] == 'slice':
        root = I.new_seq(w, targs[1]['args'][0], 'vec', ('from_slice', content_of(I, w, a)), length=a[3])
        return [(w, ('vec', root))]
    if len(targs) >= 2 and targs[0]['s'] == targs[1]['s']:
        return [(w, a)]
    return None


# ---------------------------------------------------------------- Option / Result
def _unwrap(I, w, frame, site, fn, args, term, what):
    v = I.expand(w, args[0])
    aty = term['arg_tys'][0]
    good = 0 if aty.get('name', '').endswith('Result') else 1
    if v[0] != 'enum':
        I.fail(w, frame, site, what, f"{what} on a value of unknown variant")
        return [(w, ('top', reg_ty(term['dest_ty']), 'unwrap', 'v'))]
    alts = dict(v[1])
    bad = [x for x in alts if x != good]
    if bad:
        desc = f"{what}: value may be {'Err' if good == 0 else 'None'}"
        extra = {}
        payload = alts[bad[0]]
        if payload:
            extra['err_payload'] = repr(payload[0])[:200]
            ob = I.owned_boxes(w, payload[0])
            if ob:
                extra['drops'] = [repr(x) for x in ob]
        I.fail(w, frame, site, what, desc, extra)
    else:
        I.passed(frame, site, what, f"{what}: value is always {'Ok' if good == 0 else 'Some'}")
    if good not in alts:
        return []
    return [(w, alts[good][0])]


def s_unwrap(I, w, frame, site, fn, args, term):
    return _unwrap(I, w, frame, site, fn, args, term, 'unwrap')


def s_expect(I, w, frame, site, fn, args, term):
    return _unwrap(I, w, frame, site, fn, args, term, 'expect')


# ---------------------------------------------------------------- comparisons
def _valkey(v):
    return repr(v)


def s_eq(I, w, frame, site, fn, args, term, negate=False):
    a, b = args[0], args[1]
    if a[0] != 'ref' or b[0] != 'ref':
        return None
    va = I.read(w, a[1])
    vb = I.read(w, b[1])
    res = None
    if va[0] == 'int' and vb[0] == 'int':
        res = ('cmp', 'eq', va[1], vb[1])
    elif va[0] == 'enum' and vb[0] == 'enum':
        sa = set(x for x, _ in va[1])
        sb = set(x for x, _ in vb[1])
        if not (sa & sb):
            res = ('c', False)
        elif len(sb) == 1 and not dict(vb[1])[next(iter(sb))]:
            res = ('var', a[1], frozenset(sb))          # compare with a field-less constant variant
        elif len(sa) == 1 and not dict(va[1])[next(iter(sa))]:
            res = ('var', b[1], frozenset(sa))
        elif va == vb and _ground(va):
            res = ('c', True)
        elif _int_payload_eq(va, vb) is not None:
            # both sides are the same variant with integer payloads (`Some(x) == Some(y)`): the payloads are equal
            res = _int_payload_eq(va, vb)
        elif _zero_const_variant(vb) is not None or _zero_const_variant(va) is not None:
            # comparison with a constant `Variant([0; n])`: the variant test and "all bytes are zero"; bytes are >= 0, so
            # all-zero is the single linear fact sum == 0 — the same fact a byte-wise pattern match establishes
            if _zero_const_variant(vb) is None:
                a, b, va, vb = b, a, vb, va
            v0, n0 = _zero_const_variant(vb)
            pl = dict(va[1])[v0]
            res = None
            if len(pl) == 1 and pl[0][0] == 'arr' and pl[0][1] == n0:
                total = Lin.c(0)
                for i in range(n0):
                    ev = I.read(w, a[1].ext(('d', v0), ('f', 0), ('i', Lin.c(i)))) if len(sa) == 1 else None
                    if ev is None or ev[0] != 'int':
                        total = None
                        break
                    total = total + ev[1]
                if total is not None:
                    res = ('cmp', 'eq', total, Lin.c(0))
            if res is None:
                k = ('eq', _valkey(va), _valkey(vb))
                res = ('opq', k)
                I.rec(frame, site[1], 'event', site, ('eqtest', k, a[1], va, b[1], vb))
        else:
            k = ('eq', _valkey(va), _valkey(vb))
            res = ('opq', k)
            I.rec(frame, site[1], 'event', site, ('eqtest', k, a[1], va, b[1], vb))
    elif va == vb and _ground(va):
        res = ('c', True)
    else:
        res = ('opq', ('eq', _valkey(va), _valkey(vb)))
    if negate:
        res = ('not', res) if res[0] != 'c' else ('c', not res[1])
    return [(w, ('bool', res))]


def _int_payload_eq(va, vb):
    """the conjunction of payload equalities when both values are one and the same variant carrying integers only"""
    if len(va[1]) != 1 or len(vb[1]) != 1 or va[1][0][0] != vb[1][0][0]:
        return None
    fa, fb = va[1][0][1], vb[1][0][1]
    if not fa or len(fa) != len(fb) or not all(x[0] == 'int' and y[0] == 'int' for x, y in zip(fa, fb)):
        return None
    res = None
    for x, y in zip(fa, fb):
        c = ('cmp', 'eq', x[1], y[1])
        res = c if res is None else ('and', res, c)
    return res


def _zero_const_variant(v):
    """(variant, n) when v is the constant `Variant([0u8; n])`"""
    if v[0] != 'enum' or len(v[1]) != 1:
        return None
    var, fs = v[1][0]
    if len(fs) != 1 or fs[0][0] != 'arr':
        return None
    c = fs[0][2]
    zero = ('int', Lin.c(0))
    if c[0] == 'elems' and c[1] and all(e == zero for e in c[1]) and len(c[1]) == fs[0][1]:
        return var, fs[0][1]
    if c[0] == 'repeat' and c[1] == zero:
        return var, fs[0][1]
    return None


def _ground(v):
    t = v[0]
    if t == 'int':
        return True
    if t in ('enum',):
        return all(_ground(x) for _, fs in v[1] for x in fs)
    if t == 'agg':
        return all(_ground(x) for x in v[1])
    if t == 'arr':
        return v[2][0] in ('const', 'bytes_of', 'be')
    return False


def s_ne(I, w, frame, site, fn, args, term):
    return s_eq(I, w, frame, site, fn, args, term, negate=True)


def s_range_contains(I, w, frame, site, fn, args, term):
    r, x = args[0], args[1]
    if r[0] != 'ref' or x[0] != 'ref':
        return None
    rv = I.read(w, r[1])
    xv = I.read(w, x[1])
    if rv[0] != 'agg' or xv[0] != 'int':
        return None
    st, en = rv[1][0], rv[1][1]
    f = ('and', ('cmp', 'le', st[1], xv[1]), ('cmp', 'lt', xv[1], en[1]))
    return [(w, ('bool', f))]


def s_swap(I, w, frame, site, fn, args, term):
    a, b = args[0], args[1]
    if a[0] != 'ref' or b[0] != 'ref':
        return None
    va = I.read(w, a[1])
    vb = I.read(w, b[1])
    I.write(w, a[1], vb)
    I.write(w, b[1], va)
    for loc, v in ((a[1], vb), (b[1], va)):
        if loc.root[0] != 'L':
            I.rec(frame, site[1], 'event', site, ('store', loc, v, I.partition(w)))
    return [(w, UNIT)]


# ---------------------------------------------------------------- Vec
def _vec(I, w, a):
    if a[0] == 'ref':
        v = I.read(w, a[1])
        if v[0] == 'vec':
            return v[1]
    if a[0] == 'vec':
        return a[1]
    return None


def s_vec_new(I, w, frame, site, fn, args, term):
    ety = term['dest_ty']['args'][0]
    root = I.new_seq(w, ety, 'vec', ('vec_new', site[:3]), length=Lin.c(0))
    return [(w, ('vec', root))]


def s_vec_with_capacity(I, w, frame, site, fn, args, term):
    ety = term['dest_ty']['args'][0]
    cap = args[0][1] if args[0][0] == 'int' else None
    root = I.new_seq(w, ety, 'vec', ('vec_with_capacity', site[:3]), length=Lin.c(0), cap=cap)
    return [(w, ('vec', root))]


def s_vec_len(I, w, frame, site, fn, args, term):
    root = _vec(I, w, args[0])
    if root is None:
        return None
    return [(w, ('int', I.seq_len(w, root)))]


def s_vec_capacity(I, w, frame, site, fn, args, term):
    root = _vec(I, w, args[0])
    if root is None:
        return None
    sv = w.mem[root]
    if sv[5] is not None:
        return [(w, ('int', sv[5]))]
    a = ATOMS.fresh('capacity', 0, AI.ISIZE_MAX, key=('cap', root))
    w.store = w.store.add(le(sv[1], Lin.atom(a)))
    w.mem[root] = sv[:5] + (Lin.atom(a),)
    return [(w, ('int', Lin.atom(a)))]


def s_vec_is_empty(I, w, frame, site, fn, args, term):
    root = _vec(I, w, args[0])
    if root is None:
        return None
    return [(w, ('bool', ('cmp', 'eq', I.seq_len(w, root), Lin.c(0))))]


def s_vec_push(I, w, frame, site, fn, args, term):
    root = _vec(I, w, args[0])
    if root is None:
        return None
    sv = w.mem[root]
    cap = sv[5]
    if cap is None:
        a = ATOMS.fresh('capacity', 0, AI.ISIZE_MAX, key=('cap', root))
        w.store = w.store.add(le(sv[1], Lin.atom(a)))
        cap = Lin.atom(a)
    I.rec(frame, site[1], 'event', site, ('vec_push', root, args[1], I.partition(w), w.fork(), sv[1], cap))
    if not w.store.entails(le(sv[1] + 1, cap)):
        # pushing onto a full vector reallocates: the capacity afterwards is some larger value
        g = ATOMS.fresh('capacity', 0, AI.ISIZE_MAX, defn=('grown', root, Obj.fresh()))
        w.store = w.store.add(le(sv[1] + 1, Lin.atom(g)), le(cap, Lin.atom(g)))
        cap = Lin.atom(g)
    w.mem[root] = ('seq', sv[1] + 1, sv[2], sv[3] + ((sv[1], args[1]),), sv[4], cap)
    return [(w, UNIT)]


def s_vec_pop(I, w, frame, site, fn, args, term):
    root = _vec(I, w, args[0])
    if root is None:
        return None
    sv = w.mem[root]
    ln = sv[1]
    out = []
    w1 = w.fork()
    if I.assume(w1, ('cmp', 'eq', ln, Lin.c(0)), True):
        out.append((w1, ('enum', ((0, ()),))))
    w2 = w.fork()
    if I.assume(w2, ('cmp', 'lt', Lin.c(0), ln), True):
        cells = dict(sv[3])
        ety = TY.get(sv[2])
        if (ln - 1) in cells:
            elem = cells[ln - 1]
        else:
            elem = I.expand(w2, ('top', sv[2], ('vec_pop', root), f"{w.name_of(root)}.pop()"))
        I.rec(frame, site[1], 'event', site, ('vec_pop', root, elem, I.partition(w2)))
        rest = tuple((i, c) for i, c in sv[3] if i != ln - 1)
        w2.mem[root] = ('seq', ln - 1, sv[2], rest, sv[4], sv[5])
        out.append((w2, ('enum', ((1, (elem,)),))))
    return out


def s_vec_index(I, w, frame, site, fn, args, term):
    root = _vec(I, w, args[0])
    if root is None or args[1][0] != 'int':
        return None
    i = args[1][1]
    ln = I.seq_len(w, root)
    I.obligation(w, frame, site, 'index', [le(Lin.c(0), i), lt(i, ln)], f"index {i.pretty()} < len {ln.pretty()}")
    return [(w, ('ref', Loc(root, (('i', i),))))]


def s_vec_deref(I, w, frame, site, fn, args, term):
    root = _vec(I, w, args[0])
    if root is None:
        return None
    return [(w, ('slice', Loc(root), Lin.c(0), I.seq_len(w, root)))]


def s_vec_clone(I, w, frame, site, fn, args, term):
    root = _vec(I, w, args[0])
    if root is None:
        return None
    sv = w.mem[root]
    nr = ('O', Obj.fresh())
    w.mem[nr] = ('seq', sv[1], sv[2], tuple((i, c) for i, c in sv[3] if not I.has_owned(c)), ('clone_of', root), None)
    w.names[nr] = f"clone({w.name_of(root)})"
    return [(w, ('vec', nr))]


def s_from_elem(I, w, frame, site, fn, args, term):
    ety = term['dest_ty']['args'][0]
    n = args[1][1] if args[1][0] == 'int' else None
    root = I.new_seq(w, ety, 'vec', ('from_elem', args[0]), length=n)
    return [(w, ('vec', root))]


def s_into_boxed_slice(I, w, frame, site, fn, args, term):
    a = args[0]
    if a[0] != 'vec':
        return None
    return [(w, ('box', a[1], ('into_boxed_slice', site[:3])))]


def s_clone(I, w, frame, site, fn, args, term):
    a = args[0]
    if a[0] == 'ref':
        v = I.read(w, a[1])
        if not I.has_owned(v):
            return [(w, v)]
    return None


def s_args_from_str(I, w, frame, site, fn, args, term):
    return [(w, ('top', reg_ty(term['dest_ty']), 'fmt', 'args'))]


def _minmax(is_min):
    def h(I, w, frame, site, fn, args, term):
        a, b = args[0], args[1]
        if a[0] != 'int' or b[0] != 'int':
            return None
        x, y = a[1], b[1]
        out = []
        w1 = w.fork()
        if I.assume(w1, ('cmp', 'le', x, y), True):
            out.append((w1, ('int', x if is_min else y)))
        w2 = w.fork()
        if I.assume(w2, ('cmp', 'lt', y, x), True):
            out.append((w2, ('int', y if is_min else x)))
        return out
    return h


def s_saturating_sub(I, w, frame, site, fn, args, term):
    a, b = args[0], args[1]
    if a[0] != 'int' or b[0] != 'int':
        return None
    x, y = a[1], b[1]
    out = []
    w1 = w.fork()
    if I.assume(w1, ('cmp', 'le', y, x), True):
        out.append((w1, ('int', x - y)))
    w2 = w.fork()
    if I.assume(w2, ('cmp', 'lt', x, y), True):
        out.append((w2, vint(0)))
    return out


def s_checked(op):
    def h(I, w, frame, site, fn, args, term):
        a, b = args[0], args[1]
        if a[0] != 'int' or b[0] != 'int':
            return None
        r = a[1] + b[1] if op == 'add' else a[1] - b[1]
        dty = term['dest_ty']['args'][0]
        lo, hi = AI.int_range(dty)
        out = []
        w1 = w.fork()
        if I.assume(w1, ('and', ('cmp', 'le', Lin.c(lo), r), ('cmp', 'le', r, Lin.c(hi))), True):
            out.append((w1, ('enum', ((1, (('int', r),)),))))
        if not I.in_range(w, r, lo, hi):
            w0 = w.fork()
            # None means the exact result is out of range: when one side is impossible, it is the other one
            feasible = True
            if w0.store.entails(le(Lin.c(lo), r)):
                feasible = I.assume(w0, ('cmp', 'lt', Lin.c(hi), r), True)
            elif w0.store.entails(le(r, Lin.c(hi))):
                feasible = I.assume(w0, ('cmp', 'lt', r, Lin.c(lo)), True)
            if feasible:
                out.append((w0, ('enum', ((0, ()),))))
        return out
    return h


TABLE = {
    'std::intrinsics::cold_path': s_unit,
    'core::intrinsics::cold_path': s_unit,
    'std::intrinsics::assume': s_unit,
    'std::hint::assert_unchecked': s_unit,
    'std::intrinsics::likely': s_identity,
    'std::intrinsics::unlikely': s_identity,
    'std::hint::likely': s_identity,
    'std::hint::unlikely': s_identity,
    'std::cmp::min': _minmax(True),
    'std::cmp::max': _minmax(False),
    'core::cmp::min': _minmax(True),
    'core::cmp::max': _minmax(False),
    'std::cmp::Ord::min': _minmax(True),
    'std::cmp::Ord::max': _minmax(False),
    'core::num::saturating_sub': s_saturating_sub,
    'core::num::checked_add': s_checked('add'),
    'core::num::checked_sub': s_checked('sub'),
    'core::slice::len': s_len,
    'core::slice::index::index': s_index,
    'core::slice::index::index_mut': s_index,
    'core::slice::copy_from_slice': s_copy_from_slice,
    'core::slice::get': s_slice_get,
    'core::slice::get_mut': s_slice_get,
    'core::slice::last': s_last,
    'core::slice::first': s_first,
    'core::slice::is_empty': s_slice_is_empty,
    'core::slice::contains': s_slice_contains,
    'core::slice::split_at': s_split_at,
    'core::slice::split_at_mut': s_split_at,
    'core::slice::split_first': s_split_first,
    'core::slice::split_last': s_split_last,
    'core::slice::first_chunk': s_first_chunk,
    'core::slice::split_first_chunk': s_split_first_chunk,
    'core::slice::split_last_chunk': s_split_last_chunk,
    'core::slice::iter': s_iter,
    'core::slice::iter::into_iter': s_iter,          # `for x in slice` (IntoIterator for &[T])
    "<&'a std::vec::Vec as std::iter::IntoIterator>::into_iter": s_iter,
    '<I as std::iter::IntoIterator>::into_iter': s_identity,
    '<std::slice::Iter as std::iter::Iterator>::next': s_iter_next,
    'std::iter::range::next': s_range_next,
    'std::array::iter::into_iter': s_array_into_iter,
    '<std::array::IntoIter as std::iter::Iterator>::next': s_array_iter_next,
    '<std::slice::Iter as std::iter::Iterator>::fold': s_fold,
    'std::iter::Iterator::skip': s_skip,
    'std::iter::Iterator::zip': s_zip,
    'std::iter::Iterator::enumerate': s_enumerate,
    '<std::iter::Enumerate as std::iter::Iterator>::next': s_enumerate_next,
    '<std::iter::Zip as std::iter::Iterator>::next': s_zip_next,
    'core::num::from_be_bytes': s_from_be_bytes,
    'core::num::to_be_bytes': s_to_be_bytes,
    'core::num::from_be': s_identity,
    '<T as std::convert::TryInto>::try_into': s_try_into,
    'std::array::try_from': s_try_from,
    'core::array::try_from': s_try_from,
    '<T as std::convert::Into>::into': s_into,
    'std::option::Option::unwrap': s_unwrap,
    'std::result::Result::unwrap': s_unwrap,
    'std::result::Result::expect': s_expect,
    'std::option::Option::expect': s_expect,
    '<label::Label as std::cmp::PartialEq>::eq': s_eq,
    '<label::LabelType as std::cmp::PartialEq>::eq': s_eq,
    '<pkt_type::PktType as std::cmp::PartialEq>::eq': s_eq,
    '<std::option::Option as std::cmp::PartialEq>::eq': s_eq,
    'std::cmp::PartialEq::eq': s_eq,
    'std::cmp::PartialEq::ne': s_ne,
    'std::ops::Range::contains': s_range_contains,
    'std::mem::swap': s_swap,
    'std::vec::Vec::new': s_vec_new,
    'std::vec::Vec::with_capacity': s_vec_with_capacity,
    'std::vec::Vec::len': s_vec_len,
    'std::vec::Vec::capacity': s_vec_capacity,
    'std::vec::Vec::is_empty': s_vec_is_empty,
    'std::vec::Vec::push': s_vec_push,
    'std::vec::Vec::pop': s_vec_pop,
    '<std::vec::Vec as std::ops::Index>::index': s_vec_index,
    '<std::vec::Vec as std::ops::Deref>::deref': s_vec_deref,
    '<std::vec::Vec as std::clone::Clone>::clone': s_vec_clone,
    'std::vec::from_elem': s_from_elem,
    'std::vec::Vec::into_boxed_slice': s_into_boxed_slice,
    'std::clone::Clone::clone': s_clone,
    'std::fmt::Arguments::from_str': s_args_from_str,
}


def s_derived_eq(I, w, frame, site, fn, args, term):
    return s_eq(I, w, frame, site, fn, args, term)
