"""Abstract values and worlds for the E2 interpreter.

Values are tagged tuples (hashable, structurally comparable):
  ('int', Lin)
  ('bool', form)       form: ('c',b) | ('cmp',op,Lin,Lin) | ('opq',key) | ('not',form) | ('and',f,g)
                              | ('var',Loc,frozenset(variants)) | ('ovf',Lin,lo,hi)
  ('unit',)
  ('ref', Loc)                          reference / raw pointer to a place
  ('slice', Loc, Lin start, Lin len)    fat pointer to a range of a sequence object
  ('agg', (v,...))                      struct / tuple / closure
  ('enum', ((variant,(v,...)),...))     set of possible variants with payloads
  ('top', ty_s, origin)                 unknown of type ty_s (lazily expanded)
  ('arr', n, content)                   [u8; n] by value, content = provenance
  ('box', root, origin)                 Box<[T]> owning the sequence object `root`
  ('boxptr', root)                      Unique/NonNull inside a box
  ('vec', root)                         Vec<T> owning the sequence object `root`
  ('seq', Lin len, elem_ty_s, cells, tag, cap)   the sequence object itself (stored at an 'O' root)
  ('iter', Loc base, Lin pos, Lin end)  slice::Iter / Range
  ('fn', name) ('moved',) ('disc', Loc, adt)
"""
from lin import Lin, ATOMS, Store

TY = {}          # ty display string -> ty json


def reg_ty(ty):
    if ty is None:
        return None
    s = ty['s']
    if s not in TY:
        TY[s] = ty
    return s


class Loc:
    __slots__ = ('root', 'path', '_h')

    def __init__(self, root, path=()):
        self.root = root
        self.path = path
        self._h = None

    def __eq__(self, o):
        return isinstance(o, Loc) and self.root == o.root and self.path == o.path

    def __hash__(self):
        if self._h is None:
            self._h = hash((self.root, self.path))
        return self._h

    def ext(self, *elems):
        return Loc(self.root, self.path + tuple(elems))

    def __repr__(self):
        s = f"{self.root[0]}{'.'.join(str(x) for x in self.root[1:])}"
        for e in self.path:
            if e[0] == 'f':
                s += f".{e[1]}"
            elif e[0] == 'd':
                s += f"@{e[1]}"
            elif e[0] == 'i':
                s += f"[{e[1]!r}]"
        return s


UNIT = ('unit',)
MOVED = ('moved',)
TRUE = ('bool', ('c', True))
FALSE = ('bool', ('c', False))


def vint(x):
    if isinstance(x, int):
        return ('int', Lin.c(x))
    return ('int', x)


def vbool(b):
    return TRUE if b else FALSE


def is_const_int(v):
    return v[0] == 'int' and v[1].is_const()


class Obj:
    """counter for object ids / frame ids (global, monotone)"""
    n = 0

    @classmethod
    def fresh(cls):
        cls.n += 1
        return cls.n


class World:
    __slots__ = ('mem', 'store', 'events', 'facts', 'written', 'names', 'dead', 'alias')

    def __init__(self):
        self.mem = {}
        self.store = Store()
        self.events = ()
        self.facts = {}
        self.written = frozenset()   # roots of byte objects that have been written
        self.names = {}              # root -> printable name
        self.dead = False
        self.alias = {}              # (root, path) of a copy of an enum value -> Loc it was copied from (both unwritten since)

    def fork(self):
        w = World()
        w.mem = dict(self.mem)
        w.store = self.store
        w.events = self.events
        w.facts = dict(self.facts)
        w.written = self.written
        w.names = self.names      # shared, append-only
        w.dead = self.dead
        w.alias = dict(self.alias) if self.alias else {}
        return w

    def event(self, ev):
        self.events = self.events + (ev,)

    def name_of(self, root):
        return self.names.get(root, f"{root[0]}{root[1:]}")
