#!/usr/bin/env python3
"""regenerates MANIFEST.json from analysis/manifest_data.py"""
import json, os, sys
sys.path.insert(0, os.path.join(os.path.dirname(os.path.abspath(__file__)), 'analysis'))
from manifest_data import CHECKS, NOT_APPLICABLE, REPO_FIX_COMMITS
props = [json.loads(l) for l in open(os.path.join(os.path.dirname(os.path.abspath(__file__)), 'properties.jsonl'))]
ids = [p['id'] for p in props]
checks = []
for pid in ids:
    if pid in CHECKS:
        c = CHECKS[pid]
        checks.append({
            'property_id': pid,
            'quick_cmd': f"./check {pid} --tier quick",
            'thorough_cmd': f"./check {pid} --tier thorough",
            'evidence_file': f"/verif/evidence/{pid}.json",
            'replay_cmd_template': f"./check {pid} --replay {{path}}",
            'engine': 'gse-mir + absint',
            'level_claimed': {'category': c['level'], 'text': c['text'], 'design_ref': c['design_ref']},
            'level_note': c['note'],
            'technique': c['technique'],
        })
na = [{'property_id': pid, 'reason': NOT_APPLICABLE[pid]} for pid in ids if pid not in CHECKS]
m = {
    'version': 1,
    'setup_cmd': 'cd /verif/gse-mir && CARGO_NET_OFFLINE=true cargo build --offline',
    'hooks': {
        'guard': 'dvb_gse_verif',
        'enable': 'none needed: the checks analyse the unmodified crate (cargo +nightly check --lib with the gse-mir driver as RUSTC_WORKSPACE_WRAPPER); the cfg name is reserved and unused',
        'baseline_off_cmd': 'cd /repo && cargo test --workspace --no-fail-fast --offline',
        'source_commits': [],
        'add_only': True,
    },
    'engines': [
        {'name': 'gse-mir', 'path': '/verif/gse-mir', 'serves_properties': sorted(CHECKS), 'kind_free_text': 'rustc_private driver: serialises MIR (opt-level 0), ADT tables, constants and a crate census of /repo to JSON facts; no judgement'},
        {'name': 'absint', 'path': '/verif/analysis', 'serves_properties': sorted(CHECKS), 'kind_free_text': 'python3 abstract interpreter over the MIR facts (linear constraints with Fourier-Motzkin, trace partitioning, provenance) plus one rule pack per property (analysis/rules)'},
    ],
    'checks': checks,
    'not_applicable': na,
    'notes': 'Technique family: static analysis only. Every check re-extracts facts from /repo working tree on each run. Genuine defects found on the pinned tree were repaired by unguarded fix: commits in /repo (listed in known_findings.json as fixed entries): ' + ', '.join(REPO_FIX_COMMITS),
}
json.dump(m, open(os.path.join(os.path.dirname(os.path.abspath(__file__)), 'MANIFEST.json'), 'w'), indent=1)
print('MANIFEST.json written:', len(checks), 'checks,', len(na), 'not_applicable')
