// gse-mir: fact extractor. A rustc driver that serialises the type-checked program
// (MIR at opt-level 0, ADT tables, constants, a crate census) of the crate it compiles
// to one JSON file. No judgement is made here; all rules live in /verif/analysis.
//
// Used as RUSTC_WORKSPACE_WRAPPER: argv = [gse-mir, <rustc>, rustc args...].
#![feature(rustc_private)]
#![allow(clippy::all)]

extern crate rustc_abi;
extern crate rustc_driver;
extern crate rustc_hir;
extern crate rustc_interface;
extern crate rustc_middle;
extern crate rustc_session;
extern crate rustc_span;

use rustc_middle::ty::TypeVisitableExt;
use rustc_driver::{Callbacks, Compilation};
use rustc_hir::def::DefKind;
use rustc_hir::def_id::{DefId, LOCAL_CRATE};
use rustc_middle::mir::{
    self, AggregateKind, BinOp, Body, CastKind, Operand, Place, ProjectionElem, Rvalue,
    StatementKind, TerminatorKind, UnOp,
};
use rustc_middle::ty::{self, Ty, TyCtxt, TypingEnv};
use rustc_span::Span;
use std::collections::BTreeMap;
use std::fmt::Write as _;

// ---------------------------------------------------------------- tiny JSON builder
fn jstr(s: &str) -> String {
    let mut o = String::with_capacity(s.len() + 2);
    o.push('"');
    for c in s.chars() {
        match c {
            '"' => o.push_str("\\\""),
            '\\' => o.push_str("\\\\"),
            '\n' => o.push_str("\\n"),
            '\r' => o.push_str("\\r"),
            '\t' => o.push_str("\\t"),
            c if (c as u32) < 0x20 => {
                let _ = write!(o, "\\u{:04x}", c as u32);
            }
            c => o.push(c),
        }
    }
    o.push('"');
    o
}
fn jobj(kv: Vec<(&str, String)>) -> String {
    let mut o = String::from("{");
    for (i, (k, v)) in kv.iter().enumerate() {
        if i > 0 {
            o.push(',');
        }
        o.push_str(&jstr(k));
        o.push(':');
        o.push_str(v);
    }
    o.push('}');
    o
}
fn jarr(v: Vec<String>) -> String {
    let mut o = String::from("[");
    for (i, x) in v.iter().enumerate() {
        if i > 0 {
            o.push(',');
        }
        o.push_str(x);
    }
    o.push(']');
    o
}
fn jbool(b: bool) -> String {
    if b { "true".into() } else { "false".into() }
}
fn jnum<T: std::fmt::Display>(n: T) -> String {
    format!("{}", n)
}

// ---------------------------------------------------------------- context
struct Cx<'tcx> {
    tcx: TyCtxt<'tcx>,
    adts: BTreeMap<String, String>,
    // external (core/alloc) callee instances whose MIR is available: dumped monomorphised so that the
    // interpreter can inline e.g. Option::take, `?`, ok_or, map(closure) instead of needing a summary
    ext: Vec<(ty::Instance<'tcx>, TypingEnv<'tcx>)>,
    name_override: Option<String>,
    env_override: Option<TypingEnv<'tcx>>,
}

impl<'tcx> Cx<'tcx> {
    fn path(&self, d: DefId) -> String {
        self.tcx.def_path_str(d)
    }

    fn ty(&mut self, t: Ty<'tcx>) -> String {
        let s = format!("{}", t);
        let mut kv: Vec<(&str, String)> = vec![];
        match t.kind() {
            ty::Bool => kv.push(("k", jstr("bool"))),
            ty::Char => kv.push(("k", jstr("char"))),
            ty::Int(i) => {
                kv.push(("k", jstr("int")));
                kv.push(("signed", jbool(true)));
                kv.push(("bits", jnum(i.bit_width().unwrap_or(64))));
                kv.push(("ptrsized", jbool(i.bit_width().is_none())));
            }
            ty::Uint(u) => {
                kv.push(("k", jstr("int")));
                kv.push(("signed", jbool(false)));
                kv.push(("bits", jnum(u.bit_width().unwrap_or(64))));
                kv.push(("ptrsized", jbool(u.bit_width().is_none())));
            }
            ty::Str => kv.push(("k", jstr("str"))),
            ty::Never => kv.push(("k", jstr("never"))),
            ty::Ref(_, inner, m) => {
                kv.push(("k", jstr("ref")));
                kv.push(("mut", jbool(m.is_mut())));
                kv.push(("to", self.ty(*inner)));
            }
            ty::RawPtr(inner, m) => {
                kv.push(("k", jstr("ptr")));
                kv.push(("mut", jbool(m.is_mut())));
                kv.push(("to", self.ty(*inner)));
            }
            ty::Slice(inner) => {
                kv.push(("k", jstr("slice")));
                kv.push(("of", self.ty(*inner)));
            }
            ty::Array(inner, len) => {
                kv.push(("k", jstr("array")));
                kv.push(("of", self.ty(*inner)));
                match len.try_to_target_usize(self.tcx) {
                    Some(n) => kv.push(("len", jnum(n))),
                    None => kv.push(("len", "null".into())),
                }
            }
            ty::Tuple(ts) => {
                kv.push(("k", jstr("tuple")));
                let v: Vec<String> = ts.iter().map(|x| self.ty(x)).collect();
                kv.push(("of", jarr(v)));
            }
            ty::Adt(def, args) => {
                kv.push(("k", jstr("adt")));
                let name = self.path(def.did());
                kv.push(("name", jstr(&name)));
                let v: Vec<String> = args.types().map(|x| self.ty(x)).collect();
                kv.push(("args", jarr(v)));
                kv.push(("is_box", jbool(def.is_box())));
                self.note_adt(*def);
            }
            ty::Param(p) => {
                kv.push(("k", jstr("param")));
                kv.push(("name", jstr(p.name.as_str())));
            }
            ty::FnDef(d, args) => {
                kv.push(("k", jstr("fndef")));
                kv.push(("name", jstr(&self.path(*d))));
                kv.push(("full", jstr(&self.tcx.def_path_str_with_args(*d, args))));
            }
            ty::Closure(d, _) => {
                kv.push(("k", jstr("closure")));
                kv.push(("name", jstr(&self.path(*d))));
            }
            ty::FnPtr(..) => kv.push(("k", jstr("fnptr"))),
            ty::Dynamic(..) => kv.push(("k", jstr("dyn"))),
            _ => kv.push(("k", jstr("other"))),
        }
        kv.push(("s", jstr(&s)));
        jobj(kv)
    }

    fn note_adt(&mut self, def: ty::AdtDef<'tcx>) {
        let name = self.path(def.did());
        if self.adts.contains_key(&name) {
            return;
        }
        self.adts.insert(name.clone(), String::new());
        let kind = if def.is_enum() {
            "enum"
        } else if def.is_union() {
            "union"
        } else {
            "struct"
        };
        let mut variants = vec![];
        for (vidx, v) in def.variants().iter_enumerated() {
            let mut fields = vec![];
            for f in v.fields.iter() {
                let fty = self.tcx.type_of(f.did).instantiate_identity().skip_norm_wip();
                let fty_s = self.ty(fty);
                fields.push(jobj(vec![
                    ("name", jstr(f.name.as_str())),
                    ("ty", fty_s),
                    ("public", jbool(f.vis.is_public())),
                ]));
            }
            let discr = if def.is_enum() {
                format!("{}", def.discriminant_for_variant(self.tcx, vidx).val)
            } else {
                "0".into()
            };
            variants.push(jobj(vec![
                ("name", jstr(v.name.as_str())),
                ("idx", jnum(vidx.as_u32())),
                ("discr", jstr(&discr)),
                ("fields", jarr(fields)),
            ]));
        }
        let gens = self.tcx.generics_of(def.did());
        let mut gnames = vec![];
        for p in gens.own_params.iter() {
            if matches!(p.kind, ty::GenericParamDefKind::Type { .. }) {
                gnames.push(jstr(p.name.as_str()));
            }
        }
        let j = jobj(vec![
            ("name", jstr(&name)),
            ("generics", jarr(gnames)),
            ("kind", jstr(kind)),
            ("local", jbool(def.did().is_local())),
            ("variants", jarr(variants)),
        ]);
        self.adts.insert(name, j);
    }

    fn span(&self, sp: Span) -> String {
        let sm = self.tcx.sess.source_map();
        let cs = sp.source_callsite();
        let lo = sm.lookup_char_pos(cs.lo());
        let hi = sm.lookup_char_pos(cs.hi());
        let file = format!("{}", lo.file.name.prefer_local_unconditionally());
        let mut kv = vec![
            ("file", jstr(&file)),
            ("line", jnum(lo.line)),
            ("col", jnum(lo.col.0 + 1)),
            ("line_hi", jnum(hi.line)),
            ("exp", jbool(sp.from_expansion())),
        ];
        if sp.from_expansion() {
            // chain of macro names from innermost to outermost
            let mut names = vec![];
            let mut cur = sp;
            let mut guard = 0;
            while cur.from_expansion() && guard < 16 {
                let ed = cur.ctxt().outer_expn_data();
                let nm = match ed.kind {
                    rustc_span::ExpnKind::Macro(_, name) => format!("macro:{}", name),
                    rustc_span::ExpnKind::Desugaring(d) => format!("desugar:{:?}", d),
                    rustc_span::ExpnKind::AstPass(p) => format!("astpass:{:?}", p),
                    rustc_span::ExpnKind::Root => "root".to_string(),
                };
                names.push(jstr(&nm));
                cur = ed.call_site;
                guard += 1;
            }
            kv.push(("macros", jarr(names)));
        }
        jobj(kv)
    }

    fn place(&mut self, p: &Place<'tcx>) -> String {
        let mut proj = vec![];
        for e in p.projection.iter() {
            let j = match e {
                ProjectionElem::Deref => jobj(vec![("p", jstr("deref"))]),
                ProjectionElem::Field(f, t) => jobj(vec![
                    ("p", jstr("field")),
                    ("i", jnum(f.as_u32())),
                    ("ty", self.ty(t)),
                ]),
                ProjectionElem::Index(l) => {
                    jobj(vec![("p", jstr("index")), ("local", jnum(l.as_u32()))])
                }
                ProjectionElem::ConstantIndex { offset, min_length, from_end } => jobj(vec![
                    ("p", jstr("constindex")),
                    ("offset", jnum(offset)),
                    ("min_length", jnum(min_length)),
                    ("from_end", jbool(from_end)),
                ]),
                ProjectionElem::Subslice { from, to, from_end } => jobj(vec![
                    ("p", jstr("subslice")),
                    ("from", jnum(from)),
                    ("to", jnum(to)),
                    ("from_end", jbool(from_end)),
                ]),
                ProjectionElem::Downcast(name, v) => jobj(vec![
                    ("p", jstr("downcast")),
                    ("v", jnum(v.as_u32())),
                    ("name", jstr(&name.map(|s| s.to_string()).unwrap_or_default())),
                ]),
                ProjectionElem::OpaqueCast(_) => jobj(vec![("p", jstr("opaquecast"))]),
                ProjectionElem::UnwrapUnsafeBinder(_) => jobj(vec![("p", jstr("unwrapbinder"))]),
            };
            proj.push(j);
        }
        jobj(vec![("local", jnum(p.local.as_u32())), ("proj", jarr(proj))])
    }

    fn fn_ref(&mut self, env: TypingEnv<'tcx>, d: DefId, args: ty::GenericArgsRef<'tcx>) -> Vec<(&'static str, String)> {
        let tcx = self.tcx;
        let mut kv: Vec<(&'static str, String)> = vec![
            ("name", jstr(&self.path(d))),
            ("full", jstr(&tcx.def_path_str_with_args(d, args))),
            ("local", jbool(d.is_local())),
        ];
        let targs: Vec<String> = args.types().map(|t| self.ty(t)).collect();
        kv.push(("targs", jarr(targs)));
        // trait method?
        if let Some(tr) = tcx.trait_of_assoc(d) {
            kv.push(("trait", jstr(&self.path(tr))));
            kv.push(("method", jstr(tcx.item_name(d).as_str())));
        }
        let kind = tcx.def_kind(d);
        if matches!(kind, DefKind::Fn | DefKind::AssocFn) {
            if let Ok(Some(inst)) = ty::Instance::try_resolve(tcx, env, d, args) {
                let rd = inst.def_id();
                let is_item = matches!(inst.def, ty::InstanceKind::Item(_));
                kv.push(("resolved", jstr(&self.path(rd))));
                kv.push(("resolved_full", jstr(&tcx.def_path_str_with_args(rd, inst.args))));
                kv.push(("resolved_local", jbool(rd.is_local())));
                kv.push(("resolved_item", jbool(is_item)));
                kv.push(("resolved_kind", jstr(&format!("{:?}", std::mem::discriminant(&inst.def)))));
                let ik = match inst.def {
                    ty::InstanceKind::Item(_) => "item",
                    ty::InstanceKind::Intrinsic(_) => "intrinsic",
                    ty::InstanceKind::Virtual(..) => "virtual",
                    ty::InstanceKind::CloneShim(..) => "clone_shim",
                    ty::InstanceKind::DropGlue(..) => "drop_glue",
                    ty::InstanceKind::FnPtrShim(..) => "fnptr_shim",
                    ty::InstanceKind::ClosureOnceShim { .. } => "closure_once_shim",
                    _ => "other",
                };
                kv.push(("ikind", jstr(ik)));
                if is_item && !rd.is_local() && tcx.is_mir_available(rd) {
                    kv.push(("ext_key", jstr(&format!("{:?}", inst))));
                    self.ext.push((inst, env));
                }
                // an in-crate function with const generic parameters called with concrete arguments (`take::<2>()`): its generic
                // MIR does not know the array lengths, so the instance is dumped monomorphised as well
                if is_item && rd.is_local() && tcx.is_mir_available(rd)
                    && inst.args.iter().any(|a| a.as_const().is_some())
                    && !inst.args.iter().any(|a| a.has_param())
                {
                    kv.push(("mono_key", jstr(&format!("{:?}", inst))));
                    self.ext.push((inst, env));
                }
            }
        }
        kv
    }

    fn constant(&mut self, env: TypingEnv<'tcx>, c: &mir::ConstOperand<'tcx>) -> String {
        let tcx = self.tcx;
        let t = c.const_.ty();
        let mut kv: Vec<(&str, String)> = vec![("o", jstr("const")), ("ty", self.ty(t))];
        if let ty::FnDef(d, args) = t.kind() {
            let f = self.fn_ref(env, *d, args);
            kv.push(("fn", jobj(f)));
        } else if let Some(si) = c.const_.try_eval_scalar_int(tcx, env) {
            let size = si.size();
            let bits = si.to_bits(size);
            kv.push(("bits", jstr(&format!("{}", bits))));
            kv.push(("size", jnum(size.bytes())));
            // signed interpretation
            if let ty::Int(_) = t.kind() {
                let sv = size.sign_extend(bits);
                kv.push(("int", jstr(&format!("{}", sv))));
            } else {
                kv.push(("int", jstr(&format!("{}", bits))));
            }
        }
        if let ty::Adt(adef, _) = t.kind() {
            // constant of an enum / struct type (e.g. `const Option::<usize>::None` in optimised std MIR): variant and scalar fields
            if let Ok(val) = c.const_.eval(tcx, env, c.span) {
                if let Some(d) = tcx.try_destructure_mir_constant_for_user_output(val, t) {
                    if adef.is_enum() {
                        if let Some(v) = d.variant {
                            kv.push(("variant", jnum(v.as_u32())));
                        }
                    }
                    let mut fs = vec![];
                    for (fv, fty) in d.fields.iter() {
                        let mut fk: Vec<(&str, String)> = vec![("ty", self.ty(*fty))];
                        if let Some(si) = fv.try_to_scalar_int() {
                            let size = si.size();
                            fk.push(("bits", jstr(&format!("{}", si.to_bits(size)))));
                            fk.push(("size", jnum(size.bytes())));
                        }
                        fs.push(jobj(fk));
                    }
                    kv.push(("fields", jarr(fs)));
                }
            }
        }
        // source of the constant (named const item?)
        if let mir::Const::Unevaluated(u, _) = c.const_ {
            kv.push(("item", jstr(&self.path(u.def))));
            if u.promoted.is_some() {
                kv.push(("promoted", jnum(u.promoted.unwrap().as_u32())));
            }
        }
        kv.push(("s", jstr(&format!("{}", c.const_))));
        jobj(kv)
    }

    fn operand(&mut self, env: TypingEnv<'tcx>, o: &Operand<'tcx>) -> String {
        match o {
            Operand::Copy(p) => jobj(vec![("o", jstr("copy")), ("place", self.place(p))]),
            Operand::Move(p) => jobj(vec![("o", jstr("move")), ("place", self.place(p))]),
            Operand::Constant(c) => self.constant(env, c),
            Operand::RuntimeChecks(rc) => {
                jobj(vec![("o", jstr("runtime_checks")), ("s", jstr(&format!("{:?}", rc)))])
            }
        }
    }

    fn binop(b: BinOp) -> &'static str {
        match b {
            BinOp::Add => "Add",
            BinOp::AddUnchecked => "AddUnchecked",
            BinOp::AddWithOverflow => "AddWithOverflow",
            BinOp::Sub => "Sub",
            BinOp::SubUnchecked => "SubUnchecked",
            BinOp::SubWithOverflow => "SubWithOverflow",
            BinOp::Mul => "Mul",
            BinOp::MulUnchecked => "MulUnchecked",
            BinOp::MulWithOverflow => "MulWithOverflow",
            BinOp::Div => "Div",
            BinOp::Rem => "Rem",
            BinOp::BitXor => "BitXor",
            BinOp::BitAnd => "BitAnd",
            BinOp::BitOr => "BitOr",
            BinOp::Shl => "Shl",
            BinOp::ShlUnchecked => "ShlUnchecked",
            BinOp::Shr => "Shr",
            BinOp::ShrUnchecked => "ShrUnchecked",
            BinOp::Eq => "Eq",
            BinOp::Lt => "Lt",
            BinOp::Le => "Le",
            BinOp::Ne => "Ne",
            BinOp::Ge => "Ge",
            BinOp::Gt => "Gt",
            BinOp::Cmp => "Cmp",
            BinOp::Offset => "Offset",
        }
    }

    fn rvalue(&mut self, env: TypingEnv<'tcx>, body: &Body<'tcx>, rv: &Rvalue<'tcx>) -> String {
        let tcx = self.tcx;
        let rty = rv.ty(&body.local_decls, tcx);
        let mut kv: Vec<(&str, String)> = vec![];
        match rv {
            Rvalue::Use(o, _) => {
                kv.push(("r", jstr("use")));
                kv.push(("op", self.operand(env, o)));
            }
            Rvalue::Repeat(o, n) => {
                kv.push(("r", jstr("repeat")));
                kv.push(("op", self.operand(env, o)));
                kv.push(("n", jstr(&format!("{}", n))));
            }
            Rvalue::Ref(_, bk, p) => {
                kv.push(("r", jstr("ref")));
                let m = matches!(bk, mir::BorrowKind::Mut { .. });
                kv.push(("mut", jbool(m)));
                kv.push(("place", self.place(p)));
            }
            Rvalue::RawPtr(k, p) => {
                kv.push(("r", jstr("rawptr")));
                kv.push(("mut", jbool(matches!(k, mir::RawPtrKind::Mut))));
                kv.push(("place", self.place(p)));
            }
            Rvalue::ThreadLocalRef(_) => kv.push(("r", jstr("tls"))),
            Rvalue::Cast(k, o, t) => {
                kv.push(("r", jstr("cast")));
                let ks = match k {
                    CastKind::IntToInt => "IntToInt".to_string(),
                    CastKind::Transmute => "Transmute".to_string(),
                    CastKind::PtrToPtr => "PtrToPtr".to_string(),
                    CastKind::PointerCoercion(pc, _) => format!("PointerCoercion:{:?}", pc),
                    other => format!("{:?}", other),
                };
                kv.push(("kind", jstr(&ks)));
                kv.push(("op", self.operand(env, o)));
                kv.push(("to", self.ty(*t)));
                let from = o.ty(&body.local_decls, tcx);
                kv.push(("from", self.ty(from)));
            }
            Rvalue::BinaryOp(b, ops) => {
                kv.push(("r", jstr("binop")));
                kv.push(("op", jstr(Self::binop(*b))));
                kv.push(("a", self.operand(env, &ops.0)));
                kv.push(("b", self.operand(env, &ops.1)));
                let aty = ops.0.ty(&body.local_decls, tcx);
                kv.push(("aty", self.ty(aty)));
            }
            Rvalue::UnaryOp(u, o) => {
                kv.push(("r", jstr("unop")));
                let us = match u {
                    UnOp::Not => "Not",
                    UnOp::Neg => "Neg",
                    UnOp::PtrMetadata => "PtrMetadata",
                };
                kv.push(("op", jstr(us)));
                kv.push(("a", self.operand(env, o)));
                let aty = o.ty(&body.local_decls, tcx);
                kv.push(("aty", self.ty(aty)));
            }
            Rvalue::Discriminant(p) => {
                kv.push(("r", jstr("discriminant")));
                kv.push(("place", self.place(p)));
                let pty = p.ty(&body.local_decls, tcx).ty;
                kv.push(("pty", self.ty(pty)));
            }
            Rvalue::Aggregate(ak, ops) => {
                kv.push(("r", jstr("aggregate")));
                match &**ak {
                    AggregateKind::Array(_) => kv.push(("kind", jstr("array"))),
                    AggregateKind::Tuple => kv.push(("kind", jstr("tuple"))),
                    AggregateKind::Adt(d, v, _, _, active) => {
                        kv.push(("kind", jstr("adt")));
                        kv.push(("adt", jstr(&self.path(*d))));
                        kv.push(("variant", jnum(v.as_u32())));
                        let def = tcx.adt_def(*d);
                        kv.push(("variant_name", jstr(def.variant(*v).name.as_str())));
                        if let Some(a) = active {
                            kv.push(("union_field", jnum(a.as_u32())));
                        }
                    }
                    AggregateKind::Closure(d, _) => {
                        kv.push(("kind", jstr("closure")));
                        kv.push(("closure", jstr(&self.path(*d))));
                    }
                    AggregateKind::RawPtr(..) => kv.push(("kind", jstr("rawptr"))),
                    _ => kv.push(("kind", jstr("other"))),
                }
                let v: Vec<String> = ops.iter().map(|o| self.operand(env, o)).collect();
                kv.push(("ops", jarr(v)));
            }
            Rvalue::CopyForDeref(p) => {
                kv.push(("r", jstr("copy_for_deref")));
                kv.push(("place", self.place(p)));
            }
            Rvalue::WrapUnsafeBinder(..) => kv.push(("r", jstr("wrap_unsafe_binder"))),
        }
        kv.push(("ty", self.ty(rty)));
        jobj(kv)
    }

    fn body(&mut self, did: DefId, body: &Body<'tcx>, promoted: Option<u32>) -> String {
        let tcx = self.tcx;
        let env = self.env_override.unwrap_or_else(|| TypingEnv::post_analysis(tcx, did));
        let mut locals = vec![];
        for (l, d) in body.local_decls.iter_enumerated() {
            locals.push(jobj(vec![
                ("i", jnum(l.as_u32())),
                ("ty", self.ty(d.ty)),
                ("mut", jbool(d.mutability.is_mut())),
                ("span", self.span(d.source_info.span)),
            ]));
        }
        let mut dbg = vec![];
        for v in body.var_debug_info.iter() {
            let mut kv = vec![("name", jstr(v.name.as_str()))];
            match &v.value {
                mir::VarDebugInfoContents::Place(p) => kv.push(("place", self.place(p))),
                mir::VarDebugInfoContents::Const(c) => kv.push(("const", self.constant(env, c))),
            }
            if let Some(a) = v.argument_index {
                kv.push(("arg", jnum(a)));
            }
            dbg.push(jobj(kv));
        }
        let mut blocks = vec![];
        for (bb, data) in body.basic_blocks.iter_enumerated() {
            let mut stmts = vec![];
            for st in data.statements.iter() {
                let mut kv: Vec<(&str, String)> = vec![];
                match &st.kind {
                    StatementKind::Assign(b) => {
                        kv.push(("s", jstr("assign")));
                        kv.push(("place", self.place(&b.0)));
                        kv.push(("rv", self.rvalue(env, body, &b.1)));
                    }
                    StatementKind::SetDiscriminant { place, variant_index } => {
                        kv.push(("s", jstr("set_discriminant")));
                        kv.push(("place", self.place(place)));
                        kv.push(("variant", jnum(variant_index.as_u32())));
                    }
                    StatementKind::StorageLive(l) => {
                        kv.push(("s", jstr("storage_live")));
                        kv.push(("local", jnum(l.as_u32())));
                    }
                    StatementKind::StorageDead(l) => {
                        kv.push(("s", jstr("storage_dead")));
                        kv.push(("local", jnum(l.as_u32())));
                    }
                    StatementKind::Intrinsic(i) => match &**i {
                        mir::NonDivergingIntrinsic::Assume(o) => {
                            kv.push(("s", jstr("assume")));
                            kv.push(("op", self.operand(env, o)));
                        }
                        mir::NonDivergingIntrinsic::CopyNonOverlapping(_) => {
                            kv.push(("s", jstr("copy_nonoverlapping")));
                        }
                    },
                    StatementKind::FakeRead(..)
                    | StatementKind::PlaceMention(..)
                    | StatementKind::AscribeUserType(..)
                    | StatementKind::Coverage(..)
                    | StatementKind::ConstEvalCounter
                    | StatementKind::Nop
                    | StatementKind::BackwardIncompatibleDropHint { .. } => {
                        continue;
                    }
                }
                kv.push(("span", self.span(st.source_info.span)));
                stmts.push(jobj(kv));
            }
            let term = data.terminator();
            let mut kv: Vec<(&str, String)> = vec![];
            match &term.kind {
                TerminatorKind::Goto { target } => {
                    kv.push(("t", jstr("goto")));
                    kv.push(("target", jnum(target.as_u32())));
                }
                TerminatorKind::SwitchInt { discr, targets } => {
                    kv.push(("t", jstr("switch")));
                    kv.push(("discr", self.operand(env, discr)));
                    let dty = discr.ty(&body.local_decls, tcx);
                    kv.push(("dty", self.ty(dty)));
                    let mut cases = vec![];
                    for (v, t) in targets.iter() {
                        cases.push(jarr(vec![jstr(&format!("{}", v)), jnum(t.as_u32())]));
                    }
                    kv.push(("cases", jarr(cases)));
                    kv.push(("otherwise", jnum(targets.otherwise().as_u32())));
                }
                TerminatorKind::UnwindResume => kv.push(("t", jstr("resume"))),
                TerminatorKind::UnwindTerminate(_) => kv.push(("t", jstr("terminate"))),
                TerminatorKind::Return => kv.push(("t", jstr("return"))),
                TerminatorKind::Unreachable => kv.push(("t", jstr("unreachable"))),
                TerminatorKind::Drop { place, target, unwind, .. } => {
                    kv.push(("t", jstr("drop")));
                    kv.push(("place", self.place(place)));
                    let pty = place.ty(&body.local_decls, tcx).ty;
                    kv.push(("pty", self.ty(pty)));
                    kv.push(("target", jnum(target.as_u32())));
                    if let mir::UnwindAction::Cleanup(c) = unwind {
                        kv.push(("cleanup", jnum(c.as_u32())));
                    }
                }
                TerminatorKind::Call { func, args, destination, target, unwind, .. } => {
                    kv.push(("t", jstr("call")));
                    kv.push(("func", self.operand(env, func)));
                    let v: Vec<String> = args.iter().map(|a| self.operand(env, &a.node)).collect();
                    kv.push(("args", jarr(v)));
                    let atys: Vec<String> = args
                        .iter()
                        .map(|a| {
                            let t = a.node.ty(&body.local_decls, tcx);
                            self.ty(t)
                        })
                        .collect();
                    kv.push(("arg_tys", jarr(atys)));
                    kv.push(("dest", self.place(destination)));
                    let dty = destination.ty(&body.local_decls, tcx).ty;
                    kv.push(("dest_ty", self.ty(dty)));
                    match target {
                        Some(t) => kv.push(("target", jnum(t.as_u32()))),
                        None => kv.push(("target", "null".into())),
                    }
                    if let mir::UnwindAction::Cleanup(c) = unwind {
                        kv.push(("cleanup", jnum(c.as_u32())));
                    }
                }
                TerminatorKind::TailCall { .. } => kv.push(("t", jstr("tailcall"))),
                TerminatorKind::Assert { cond, expected, msg, target, unwind } => {
                    kv.push(("t", jstr("assert")));
                    kv.push(("cond", self.operand(env, cond)));
                    kv.push(("expected", jbool(*expected)));
                    kv.push(("target", jnum(target.as_u32())));
                    let mut mk: Vec<(&str, String)> = vec![];
                    match &**msg {
                        mir::AssertKind::BoundsCheck { len, index } => {
                            mk.push(("kind", jstr("BoundsCheck")));
                            mk.push(("len", self.operand(env, len)));
                            mk.push(("index", self.operand(env, index)));
                        }
                        mir::AssertKind::Overflow(b, x, y) => {
                            mk.push(("kind", jstr("Overflow")));
                            mk.push(("op", jstr(Self::binop(*b))));
                            mk.push(("a", self.operand(env, x)));
                            mk.push(("b", self.operand(env, y)));
                        }
                        mir::AssertKind::OverflowNeg(x) => {
                            mk.push(("kind", jstr("OverflowNeg")));
                            mk.push(("a", self.operand(env, x)));
                        }
                        mir::AssertKind::DivisionByZero(x) => {
                            mk.push(("kind", jstr("DivisionByZero")));
                            mk.push(("a", self.operand(env, x)));
                        }
                        mir::AssertKind::RemainderByZero(x) => {
                            mk.push(("kind", jstr("RemainderByZero")));
                            mk.push(("a", self.operand(env, x)));
                        }
                        other => {
                            mk.push(("kind", jstr("Other")));
                            mk.push(("s", jstr(&format!("{:?}", other))));
                        }
                    }
                    kv.push(("msg", jobj(mk)));
                    if let mir::UnwindAction::Cleanup(c) = unwind {
                        kv.push(("cleanup", jnum(c.as_u32())));
                    }
                }
                TerminatorKind::FalseEdge { real_target, .. } => {
                    kv.push(("t", jstr("goto")));
                    kv.push(("target", jnum(real_target.as_u32())));
                }
                TerminatorKind::FalseUnwind { real_target, .. } => {
                    kv.push(("t", jstr("goto")));
                    kv.push(("target", jnum(real_target.as_u32())));
                }
                TerminatorKind::Yield { .. }
                | TerminatorKind::CoroutineDrop
                | TerminatorKind::InlineAsm { .. } => kv.push(("t", jstr("unsupported"))),
            }
            kv.push(("span", self.span(term.source_info.span)));
            blocks.push(jobj(vec![
                ("i", jnum(bb.as_u32())),
                ("cleanup", jbool(data.is_cleanup)),
                ("stmts", jarr(stmts)),
                ("term", jobj(kv)),
            ]));
        }

        let kind = tcx.def_kind(did);
        let nm = match (&self.name_override, promoted) {
            (Some(n), _) => n.clone(),
            (None, Some(i)) => format!("{}::promoted[{}]", self.path(did), i),
            (None, None) => self.path(did),
        };
        let mut kv: Vec<(&str, String)> = vec![
            ("name", jstr(&nm)),
            ("promoted", jbool(promoted.is_some())),
            ("def_kind", jstr(&format!("{:?}", kind))),
            ("arg_count", jnum(body.arg_count)),
            ("span", self.span(body.span)),
        ];
        if matches!(kind, DefKind::Fn | DefKind::AssocFn) {
            kv.push(("public", jbool(tcx.visibility(did).is_public())));
            let sig = tcx.fn_sig(did).instantiate_identity().skip_norm_wip().skip_binder();
            kv.push(("unsafe_fn", jbool(!sig.safety().is_safe())));
            kv.push(("item_name", jstr(tcx.item_name(did).as_str())));
        }
        if matches!(kind, DefKind::AssocFn) {
            let parent = tcx.parent(did);
            if matches!(tcx.def_kind(parent), DefKind::Impl { .. }) {
                kv.push(("derived", jbool(tcx.is_automatically_derived(parent))));
                let self_ty = tcx.type_of(parent).instantiate_identity().skip_norm_wip();
                kv.push(("impl_self", self.ty(self_ty)));
                if let Some(tr) = tcx.impl_opt_trait_ref(parent) {
                    let tr = tr.instantiate_identity().skip_norm_wip();
                    kv.push(("impl_trait", jstr(&self.path(tr.def_id))));
                }
            } else if matches!(tcx.def_kind(parent), DefKind::Trait) {
                kv.push(("in_trait", jstr(&self.path(parent))));
            }
        }
        kv.push(("locals", jarr(locals)));
        kv.push(("debug", jarr(dbg)));
        kv.push(("blocks", jarr(blocks)));
        jobj(kv)
    }
}

// ---------------------------------------------------------------- constants
fn hex(bytes: &[u8]) -> String {
    let mut s = String::with_capacity(bytes.len() * 2);
    for b in bytes {
        let _ = write!(s, "{:02x}", b);
    }
    s
}

fn dump_alloc<'tcx>(tcx: TyCtxt<'tcx>, alloc_id: mir::interpret::AllocId, depth: u32) -> String {
    use rustc_middle::mir::interpret::GlobalAlloc;
    match tcx.try_get_global_alloc(alloc_id) {
        Some(GlobalAlloc::Memory(m)) => {
            let a = m.inner();
            let len = a.len();
            let bytes = a.inspect_with_uninit_and_ptr_outside_interpreter(0..len);
            let mut ptrs = vec![];
            if depth < 3 {
                for (off, prov) in a.provenance().ptrs().iter() {
                    let sub = dump_alloc(tcx, prov.alloc_id(), depth + 1);
                    ptrs.push(jobj(vec![("offset", jnum(off.bytes())), ("alloc", sub)]));
                }
            }
            jobj(vec![("len", jnum(len)), ("bytes", jstr(&hex(bytes))), ("ptrs", jarr(ptrs))])
        }
        _ => "null".into(),
    }
}

fn dump_consts<'tcx>(cx: &mut Cx<'tcx>) -> String {
    let tcx = cx.tcx;
    let mut out = vec![];
    for ld in tcx.hir_crate_items(()).definitions() {
        let did = ld.to_def_id();
        let kind = tcx.def_kind(did);
        if !matches!(kind, DefKind::Const { .. } | DefKind::AssocConst { .. } | DefKind::Static { .. }) {
            continue;
        }
        if tcx.generics_of(did).own_requires_monomorphization() || tcx.generics_of(did).parent.is_some() && matches!(kind, DefKind::AssocConst { .. }) && tcx.generics_of(tcx.parent(did)).requires_monomorphization(tcx) {
            continue;
        }
        let t = tcx.type_of(did).instantiate_identity().skip_norm_wip();
        let mut kv: Vec<(&str, String)> = vec![
            ("name", jstr(&cx.path(did))),
            ("ty", cx.ty(t)),
            ("span", cx.span(tcx.def_span(did))),
        ];
        if matches!(kind, DefKind::Static { .. }) {
            out.push(jobj(kv));
            continue;
        }
        match tcx.const_eval_poly(did) {
            Ok(val) => match val {
                mir::ConstValue::Scalar(mir::interpret::Scalar::Int(si)) => {
                    let size = si.size();
                    let bits = si.to_bits(size);
                    kv.push(("bits", jstr(&format!("{}", bits))));
                    kv.push(("size", jnum(size.bytes())));
                }
                mir::ConstValue::Scalar(mir::interpret::Scalar::Ptr(p, _)) => {
                    let (prov, off) = p.prov_and_relative_offset();
                    kv.push(("ptr_offset", jnum(off.bytes())));
                    kv.push(("alloc", dump_alloc(tcx, prov.alloc_id(), 0)));
                }
                mir::ConstValue::ZeroSized => kv.push(("zst", jbool(true))),
                mir::ConstValue::Slice { alloc_id, meta } => {
                    kv.push(("slice_len", jnum(meta)));
                    kv.push(("alloc", dump_alloc(tcx, alloc_id, 0)));
                }
                mir::ConstValue::Indirect { alloc_id, offset } => {
                    kv.push(("indirect_offset", jnum(offset.bytes())));
                    kv.push(("alloc", dump_alloc(tcx, alloc_id, 0)));
                    // a table of enum / struct values (`[Option<usize>; 6]`): element by element, variant and scalar fields
                    if let ty::Array(et, _) = t.kind() {
                        if let ty::Adt(..) = et.kind() {
                            if let Some(d) = tcx.try_destructure_mir_constant_for_user_output(val, t) {
                                let mut els = vec![];
                                for (ev, ety) in d.fields.iter() {
                                    let mut ek: Vec<(&str, String)> = vec![("ty", cx.ty(*ety))];
                                    if let Some(ed) = tcx.try_destructure_mir_constant_for_user_output(*ev, *ety) {
                                        if let Some(v) = ed.variant {
                                            ek.push(("variant", jnum(v.as_u32())));
                                        }
                                        let mut fs = vec![];
                                        for (fv, fty) in ed.fields.iter() {
                                            let mut fk: Vec<(&str, String)> = vec![("ty", cx.ty(*fty))];
                                            if let Some(si) = fv.try_to_scalar_int() {
                                                let size = si.size();
                                                fk.push(("bits", jstr(&format!("{}", si.to_bits(size)))));
                                                fk.push(("size", jnum(size.bytes())));
                                            }
                                            fs.push(jobj(fk));
                                        }
                                        ek.push(("fields", jarr(fs)));
                                    }
                                    els.push(jobj(ek));
                                }
                                kv.push(("elems", jarr(els)));
                            }
                        }
                    }
                }
            },
            Err(_) => kv.push(("eval_error", jbool(true))),
        }
        out.push(jobj(kv));
    }
    jarr(out)
}

// ---------------------------------------------------------------- unsafe census (HIR)
struct UnsafeCounter<'tcx> {
    tcx: TyCtxt<'tcx>,
    blocks: Vec<String>,
}
impl<'tcx> rustc_hir::intravisit::Visitor<'tcx> for UnsafeCounter<'tcx> {
    type NestedFilter = rustc_middle::hir::nested_filter::OnlyBodies;
    fn maybe_tcx(&mut self) -> Self::MaybeTyCtxt {
        self.tcx
    }
    fn visit_block(&mut self, b: &'tcx rustc_hir::Block<'tcx>) {
        if let rustc_hir::BlockCheckMode::UnsafeBlock(src) = b.rules {
            if matches!(src, rustc_hir::UnsafeSource::UserProvided) {
                let sm = self.tcx.sess.source_map();
                self.blocks.push(sm.span_to_diagnostic_string(b.span));
            }
        }
        rustc_hir::intravisit::walk_block(self, b);
    }
}

fn dump<'tcx>(tcx: TyCtxt<'tcx>, out_path: &str) {
    let mut cx = Cx { tcx, adts: BTreeMap::new(), ext: vec![], name_override: None, env_override: None };
    let mut bodies = vec![];
    let mut nbodies = 0usize;
    for ld in tcx.mir_keys(()).iter() {
        let did = ld.to_def_id();
        let kind = tcx.def_kind(did);
        // tuple-struct / tuple-variant constructors are functions too (`.map(Label::SixBytesLabel)`)
        if !matches!(kind, DefKind::Fn | DefKind::AssocFn | DefKind::Closure | DefKind::Ctor(..)) {
            continue;
        }
        let body = tcx.optimized_mir(did);
        bodies.push(cx.body(did, body, None));
        nbodies += 1;
        for (pi, pb) in tcx.promoted_mir(did).iter_enumerated() {
            bodies.push(cx.body(did, pb, Some(pi.as_u32())));
        }
    }
    // external callee instances, monomorphised, transitively (bounded: 8 rounds, 800 bodies, 80 blocks each)
    let mut seen = std::collections::BTreeSet::new();
    let mut ext_bodies = vec![];
    let mut rounds = 0;
    while !cx.ext.is_empty() && rounds < 8 && ext_bodies.len() < 800 {
        rounds += 1;
        let work: Vec<_> = std::mem::take(&mut cx.ext);
        for (inst, env) in work {
            let key = format!("{:?}", inst);
            if !seen.insert(key.clone()) {
                continue;
            }
            let body = tcx.instance_mir(inst.def);
            if body.basic_blocks.len() > 80 {
                continue;
            }
            let mono = match inst.try_instantiate_mir_and_normalize_erasing_regions(tcx, env, ty::EarlyBinder::bind(body.clone())) {
                Ok(b) => b,
                Err(_) => continue,
            };
            cx.name_override = Some(key);
            cx.env_override = Some(env);
            let j = cx.body(inst.def_id(), &mono, None);
            cx.name_override = None;
            cx.env_override = None;
            ext_bodies.push(j);
        }
    }
    cx.ext.clear();
    // items / census
    let mut items = vec![];
    let mut unsafe_impls = vec![];
    let mut unsafe_fns = vec![];
    for ld in tcx.hir_crate_items(()).definitions() {
        let did = ld.to_def_id();
        let kind = tcx.def_kind(did);
        let mut kv: Vec<(&str, String)> = vec![
            ("name", jstr(&cx.path(did))),
            ("kind", jstr(&format!("{:?}", kind))),
        ];
        match kind {
            DefKind::Struct | DefKind::Enum | DefKind::Union => {
                let def = tcx.adt_def(did);
                cx.note_adt(def);
            }
            DefKind::Fn | DefKind::AssocFn => {
                let sig = tcx.fn_sig(did).instantiate_identity().skip_norm_wip().skip_binder();
                if !sig.safety().is_safe() {
                    unsafe_fns.push(jstr(&cx.path(did)));
                }
                kv.push(("public", jbool(tcx.visibility(did).is_public())));
                let ins: Vec<String> = sig.inputs().iter().map(|t| cx.ty(*t)).collect();
                kv.push(("inputs", jarr(ins)));
                kv.push(("output", cx.ty(sig.output())));
            }
            DefKind::Impl { .. } => {
                if let Some(tr) = tcx.impl_opt_trait_ref(did) {
                    let tr = tr.instantiate_identity().skip_norm_wip();
                    kv.push(("trait", jstr(&cx.path(tr.def_id))));
                    let th = tcx.impl_trait_header(did);
                    if !th.safety.is_safe() && !tcx.is_automatically_derived(did) {
                        unsafe_impls.push(jstr(&cx.path(did)));
                    }
                }
                kv.push(("derived", jbool(tcx.is_automatically_derived(did))));
            }
            _ => {}
        }
        items.push(jobj(kv));
    }
    let mut uc = UnsafeCounter { tcx, blocks: vec![] };
    tcx.hir_visit_all_item_likes_in_crate(&mut uc);
    let ublocks: Vec<String> = uc.blocks.iter().map(|s| jstr(s)).collect();

    let consts = dump_consts(&mut cx);
    let adts: Vec<String> = cx.adts.values().filter(|s| !s.is_empty()).cloned().collect();
    let crate_name = tcx.crate_name(LOCAL_CRATE).to_string();
    let doc = jobj(vec![
        ("crate", jstr(&crate_name)),
        ("pid", jnum(std::process::id())),
        ("rustc", jstr(option_env!("CFG_VERSION").unwrap_or("nightly"))),
        ("n_bodies", jnum(nbodies)),
        ("bodies", jarr(bodies)),
        ("ext_bodies", jarr(ext_bodies)),
        ("adts", jarr(adts)),
        ("consts", consts),
        ("items", jarr(items)),
        (
            "census",
            jobj(vec![
                ("unsafe_blocks", jarr(ublocks)),
                ("unsafe_fns", jarr(unsafe_fns)),
                ("unsafe_impls", jarr(unsafe_impls)),
            ]),
        ),
    ]);
    std::fs::write(out_path, doc).expect("gse-mir: cannot write facts");
}

struct Cb {
    out: Option<String>,
    want: Option<String>,
}
impl Callbacks for Cb {
    fn after_analysis<'tcx>(
        &mut self,
        _c: &rustc_interface::interface::Compiler,
        tcx: TyCtxt<'tcx>,
    ) -> Compilation {
        if let Some(out) = &self.out {
            let name = tcx.crate_name(LOCAL_CRATE).to_string();
            let ok = match &self.want {
                Some(w) => *w == name,
                None => true,
            };
            if ok {
                dump(tcx, out);
            }
        }
        Compilation::Continue
    }
}

fn main() {
    let mut args: Vec<String> = std::env::args().collect();
    // RUSTC_WORKSPACE_WRAPPER convention: argv[1] is the path of the real rustc
    if args.len() > 1 && (args[1].ends_with("rustc") || args[1].contains("/rustc")) {
        args.remove(1);
    }
    let mut cb = Cb {
        out: std::env::var("GSE_MIR_OUT").ok(),
        want: std::env::var("GSE_MIR_CRATE").ok(),
    };
    rustc_driver::run_compiler(&args, &mut cb);
}
