#!/usr/bin/env python3
"""selftest/history.py <out.json> — run every check on each commit of /repo from the pinned snapshot to HEAD (scratch worktrees
outside /repo and /verif, removed afterwards) and record, per finding key, the first commit on which it no longer appears.
Used to attribute the `fixed` entries of known_findings.json to the repairing commit."""
import json, os, subprocess, sys, shutil, tempfile, glob
from concurrent.futures import ThreadPoolExecutor
VERIF = os.path.dirname(os.path.dirname(os.path.abspath(__file__)))
IDS = [f"C{i:02d}" for i in range(1, 21)]
commits = subprocess.check_output(['git', '-C', '/repo', 'rev-list', '--reverse', 'HEAD'], text=True).split()
res = {}
base = tempfile.mkdtemp(prefix='hist-')
for c in commits:
    wt = os.path.join(base, 'wt')
    subprocess.check_call(['git', '-C', '/repo', 'worktree', 'add', '--detach', '-f', wt, c], stdout=subprocess.DEVNULL, stderr=subprocess.DEVNULL)
    out = os.path.join(base, c[:7])
    env = dict(os.environ, VERIF_REPO=wt, VERIF_OUT=out)
    def one(pid):
        r = subprocess.run([os.path.join(VERIF, 'check'), pid], env=env, capture_output=True, text=True)
        return pid, r.returncode, r.stdout
    with ThreadPoolExecutor(10) as ex:
        rr = list(ex.map(one, IDS))
    keys = {}
    for pid, rc, so in rr:
        ks = []
        for p in sorted(glob.glob(os.path.join(out, 'out', pid, 'finding-*.json'))):
            d = json.load(open(p))
            ks.append([d['rule'], d['fn'], d['key'], d['what']])
        if 'kind=tooling' in so:
            ks.append(['tooling', '-', '-', so[-400:]])
        keys[pid] = ks
    res[c[:7]] = keys
    print(c[:7], {p: len(k) for p, k in keys.items() if k}, flush=True)
    subprocess.call(['git', '-C', '/repo', 'worktree', 'remove', '--force', wt])
    shutil.rmtree(out, ignore_errors=True)
subprocess.call(['git', '-C', '/repo', 'worktree', 'prune'])
shutil.rmtree(base, ignore_errors=True)
json.dump({'commits': [c[:7] for c in commits], 'findings': res}, open(sys.argv[1], 'w'), indent=1)
