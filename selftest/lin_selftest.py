#!/usr/bin/env python3
"""selftest/lin_selftest.py [rounds] [seed] — differential self-test of the checker's own decision procedures (analysis/lin.py)
and of the join of analysis/absint.py against brute-force enumeration on small integer boxes.

This tests the *checker*, not the crate: nothing of dvb_gse_rust is executed.  Soundness directions only:
  * Store.entails(e) == True        =>  no point of the box satisfies the store and violates e
  * Store.is_bottom() == True       =>  no point of the box satisfies the store
  * satisfiable_with(..) == False   =>  no point satisfies store + extra
  * bounds(e) = (lo, hi)            =>  lo <= e <= hi on every point that satisfies the store
  * join(E, N) = J                  =>  every point of E and every point of N (join atoms bound to that side's value)
                                        satisfies every constraint of J
Incompleteness (a true entailment not found) is counted and printed, it is not an error.
Exit status 1 if a soundness direction is violated."""
import itertools
import os
import random
import sys

sys.path.insert(0, os.path.join(os.path.dirname(os.path.dirname(os.path.abspath(__file__))), 'analysis'))
from lin import Lin, ATOMS, Store, le, lt          # noqa: E402

ROUNDS = int(sys.argv[1]) if len(sys.argv) > 1 else 400
SEED = int(sys.argv[2]) if len(sys.argv) > 2 else 1
rnd = random.Random(SEED)
LO, HI = 0, 6


def rand_lin(atoms, maxc=3):
    k = rnd.randint(1, min(3, len(atoms)))
    e = Lin.c(rnd.randint(-8, 8))
    for a in rnd.sample(atoms, k):
        e = e + Lin.atom(a, rnd.choice([-maxc, -2, -1, 1, 1, 2, maxc]))
    return e


def evalc(e, pt):
    return e.const + sum(k * pt[a] for a, k in e.terms)


def points(atoms):
    for vals in itertools.product(range(LO, HI + 1), repeat=len(atoms)):
        yield dict(zip(atoms, vals))


def sat_points(store, atoms):
    return [p for p in points(atoms) if all(evalc(c, p) <= 0 for c in store.cons)]


bad = 0
incomplete = 0
checked = 0
for r in range(ROUNDS):
    n = rnd.randint(2, 4)
    atoms = [ATOMS.fresh(f"t{r}_{i}", LO, HI) for i in range(n)]
    st = Store()
    for _ in range(rnd.randint(1, 5)):
        st = st.add(rand_lin(atoms))
    if rnd.random() < 0.4:
        a, b = rand_lin(atoms, 2), rand_lin(atoms, 2)
        st = st.add_eq(a, b)
    pts = sat_points(st, atoms)
    # bottom
    checked += 1
    if st.is_bottom() and pts:
        print('UNSOUND is_bottom', st, pts[0]); bad += 1
    if not st.is_bottom() and not pts:
        incomplete += 1
    # entailment
    for _ in range(6):
        e = rand_lin(atoms)
        truth = all(evalc(e, p) <= 0 for p in pts)
        got = st.entails(e)
        checked += 1
        if got and not truth:
            print('UNSOUND entails', st, '|=', e.pretty(), 'counterexample', [p for p in pts if evalc(e, p) > 0][0]); bad += 1
        if truth and not got:
            incomplete += 1
        ge = st.entails_eq(e, Lin.c(0))
        if ge and not all(evalc(e, p) == 0 for p in pts):
            print('UNSOUND entails_eq', st, e.pretty()); bad += 1
    # satisfiable_with
    for _ in range(3):
        e1 = rand_lin(atoms)
        got = st.satisfiable_with(e1)
        truth = any(evalc(e1, p) <= 0 for p in pts)
        checked += 1
        if not got and truth:
            print('UNSOUND satisfiable_with', st, e1.pretty()); bad += 1
        if got and not truth:
            incomplete += 1
    # bounds
    for _ in range(3):
        e = rand_lin(atoms)
        for name in ('bounds', 'quick_bounds'):
            lo, hi = getattr(st, name)(e)
            checked += 1
            for p in pts:
                v = evalc(e, p)
                if (lo is not None and v < lo) or (hi is not None and v > hi):
                    print(f'UNSOUND {name}', st, e.pretty(), (lo, hi), p, v); bad += 1
                    break

# ---- join
from values import World          # noqa: E402
import absint                      # noqa: E402


class _F:
    """just enough of Facts for Interp()"""
    bodies = {}
    ext = {}
    adts = {}
    consts = {}


jbad = 0
jchecked = 0
for r in range(ROUNDS // 2):
    n = rnd.randint(2, 3)
    shared = [ATOMS.fresh(f"j{r}_{i}", LO, HI) for i in range(n)]
    I = absint.Interp(_F(), {})
    worlds = []
    for side in range(2):
        w = World()
        st = Store()
        for _ in range(rnd.randint(1, 4)):
            st = st.add(rand_lin(shared))
        w.store = st
        # three integer locations whose values are linear expressions over the shared atoms
        for li in range(3):
            if rnd.random() < 0.3 and side == 1:
                w.mem[('L', 1, li)] = worlds[0].mem[('L', 1, li)]
            else:
                w.mem[('L', 1, li)] = ('int', rand_lin(shared, 2))
        worlds.append(w)
    E, N = worlds
    if not sat_points(E.store, shared) or not sat_points(N.store, shared):
        continue
    for widen in (False, True):
        try:
            J, _ = I.join(E, N, (1, 0, 0), widen=widen, relational=rnd.random() < 0.5)
        except Exception as ex:          # the join must not crash either
            print('join raised', type(ex).__name__, ex); jbad += 1
            continue
        jatoms = set()
        for c in J.store.cons:
            jatoms.update(c.atoms())
        jatoms -= set(shared)
        for side_w in (E, N):
            for p in sat_points(side_w.store, shared):
                env = dict(p)
                ok = True
                # join atoms take the value of the location they stand for on this side
                for li in range(3):
                    jv = J.mem[('L', 1, li)]
                    sv = side_w.mem[('L', 1, li)]
                    if jv[0] == 'int' and len(jv[1].terms) == 1 and jv[1].const == 0 and jv[1].terms[0][0] in jatoms:
                        env[jv[1].terms[0][0]] = evalc(sv[1], p)
                if any(a not in env for a in jatoms):
                    continue          # a join atom without a location (dropped): cannot be evaluated
                jchecked += 1
                for c in J.store.cons:
                    if evalc(c, env) > 0:
                        print('UNSOUND join', 'widen' if widen else '', 'E', E.store, 'N', N.store, 'J', c.pretty(), 'point', p)
                        jbad += 1
                        ok = False
                        break
                if not ok:
                    break
# ---- re-join (loop shape): the second arrival expresses the new values over the join atoms themselves (x~ -> x~ + c)
rj_checked = 0
for r in range(ROUNDS // 2):
    shared = [ATOMS.fresh(f"r{r}_{i}", LO, HI) for i in range(2)]
    I = absint.Interp(_F(), {})
    pt_ = (1, 0, 0)
    I.head_points.add(pt_)
    E = World()
    N = World()
    E.store = Store().add(rand_lin(shared))
    N.store = Store().add(rand_lin(shared))
    same = rnd.random() < 0.5
    for li in range(2):
        if same and li == 1:
            E.mem[('L', 1, 1)] = E.mem[('L', 1, 0)]
            N.mem[('L', 1, 1)] = N.mem[('L', 1, 0)]
        else:
            E.mem[('L', 1, li)] = ('int', Lin.c(rnd.randint(0, 3)))
            N.mem[('L', 1, li)] = ('int', rand_lin(shared, 2))
    if not sat_points(E.store, shared) or not sat_points(N.store, shared):
        continue
    try:
        J, _ = I.join(E, N, pt_, relational=True)
    except Exception as ex:
        print('join raised', type(ex).__name__, ex)
        jbad += 1
        continue
    jl = [J.mem[('L', 1, li)] for li in range(2)]
    if any(not (v[0] == 'int' and len(v[1].terms) == 1 and v[1].const == 0 and v[1].terms[0][0] not in shared) for v in jl):
        continue
    ja = [v[1].terms[0][0] for v in jl]
    if ja[0] == ja[1]:
        continue                  # shared join atom: the two locations cannot advance differently; not the shape tested here
    # second arrival: every location advanced by a constant; the locations that were equal stay equal most of the time
    incs = [rnd.randint(0, 2), rnd.randint(0, 2)]
    if same and rnd.random() < 0.7:
        incs[1] = incs[0]
    N2 = World()
    N2.store = J.store
    for li in range(2):
        N2.mem[('L', 1, li)] = ('int', jl[li][1] + incs[li])
    cross = same and J.store.entails_eq(jl[0][1], jl[1][1]) and rnd.random() < 0.6
    xi = rnd.randint(0, 1)        # which location is written over the other one's atom
    if cross:
        # the interpreter canonicalises equal values: one location's new value is written over the OTHER location's atom
        N2.mem[('L', 1, xi)] = ('int', jl[1 - xi][1] + incs[xi])
    try:
        J2, _ = I.join(J, N2, pt_, widen=rnd.random() < 0.5, relational=True)
    except Exception as ex:
        print('re-join raised', type(ex).__name__, ex)
        jbad += 1
        continue
    j2l = [J2.mem[('L', 1, li)] for li in range(2)]
    if j2l != jl:
        continue                  # the join introduced new atoms: covered by the first test
    allat = sorted(set(shared) | set(ja))
    stop = False
    for vals in itertools.product(range(LO, HI + 3), repeat=len(allat)):
        p = dict(zip(allat, vals))
        if not all(evalc(c, p) <= 0 for c in J.store.cons):
            continue
        # the N side of the re-join: the same point with the join atoms advanced
        env = dict(p)
        for li in range(2):
            env[ja[li]] = p[ja[li]] + incs[li]
        if cross:
            env[ja[xi]] = p[ja[1 - xi]] + incs[xi]
        for side_env in (p, env):
            if any(a not in side_env for c in J2.store.cons for a in c.atoms()):
                continue
            rj_checked += 1
            for c in J2.store.cons:
                if evalc(c, side_env) > 0:
                    print('UNSOUND re-join: J', J.store, 'incs', incs, 'kept', c.pretty(), 'violated at', side_env)
                    jbad += 1
                    stop = True
                    break
            if stop:
                break
        if stop:
            break
print(f"lin_selftest: rounds={ROUNDS} seed={SEED} queries={checked} unsound={bad} incomplete={incomplete} join_points={jchecked} rejoin_points={rj_checked} join_unsound={jbad}")
sys.exit(1 if (bad or jbad) else 0)
