#!/usr/bin/env python3
"""selftest/matrix.py — run every check against every seeded change (scratch copies of /repo's working tree outside /repo and
/verif, removed afterwards) and write /verif/seeded/MATRIX.json: seed -> {check: [rules that reported]}.  Also refreshes
`detected_by` in each seed's meta.json (which the thorough tier uses to pick the seeds a check must catch)."""
import glob, json, os, shutil, subprocess, sys, tempfile
from concurrent.futures import ThreadPoolExecutor
VERIF = os.path.dirname(os.path.dirname(os.path.abspath(__file__)))
IDS = [f"C{i:02d}" for i in range(1, 21)]
only = sys.argv[1:]
matrix = {}
mp = os.path.join(VERIF, 'seeded', 'MATRIX.json')
if os.path.exists(mp) and only:
    matrix = json.load(open(mp))
for meta_p in sorted(glob.glob(os.path.join(VERIF, 'seeded', '*', 'meta.json'))):
    name = os.path.basename(os.path.dirname(meta_p))
    if only and name not in only:
        continue
    d = tempfile.mkdtemp(prefix='gse-matrix-')
    try:
        src = os.path.join(d, 'repo')
        shutil.copytree('/repo', src, ignore=shutil.ignore_patterns('target', '.git'))
        r = subprocess.run(['patch', '-p1', '-s', '-i', os.path.join(os.path.dirname(meta_p), 'patch.diff')], cwd=src, capture_output=True, text=True)
        if r.returncode != 0:
            print(name, 'PATCH DOES NOT APPLY'); continue
        def one(pid):
            env = dict(os.environ, VERIF_REPO=src, VERIF_OUT=os.path.join(d, 'o-' + pid), VERIF_TIER='quick')
            r = subprocess.run([os.path.join(VERIF, 'check'), pid], env=env, capture_output=True, text=True)
            rules = sorted({l.split()[0][5:] for l in r.stdout.splitlines() if l.startswith('  rule=')})
            return pid, r.returncode, rules, 'kind=tooling' in r.stdout
        with ThreadPoolExecutor(int(os.environ.get('JOBS', '10'))) as ex:
            rr = list(ex.map(one, IDS))
        row = {pid: rules for pid, rc, rules, tool in rr if rc == 1 and rules and not tool}
        tooling = [pid for pid, rc, rules, tool in rr if tool]
        matrix[name] = {'detected_by': row, 'tooling_errors': tooling}
        meta = json.load(open(meta_p))
        meta['detected_by'] = sorted(row)
        json.dump(meta, open(meta_p, 'w'), indent=1)
        print(name, {k: v[:2] for k, v in row.items()}, 'TOOLING ' + str(tooling) if tooling else '', flush=True)
    finally:
        shutil.rmtree(d, ignore_errors=True)
json.dump(matrix, open(mp, 'w'), indent=1)
