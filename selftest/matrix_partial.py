#!/usr/bin/env python3
"""selftest/matrix_partial.py — for seeded changes that have no row in seeded/MATRIX.json yet (the full matrix, 20 checks per
change, had no time to run), enter the verdicts try_seed.py recorded in their meta.json (`checks_run`: the target check and
one or two neighbours) as a row marked `partial` with the list of checks that were run.  matrix.py replaces such a row by a
full one whenever it is run for that change."""
import glob, json, os
VERIF = os.path.dirname(os.path.dirname(os.path.abspath(__file__)))
mp = os.path.join(VERIF, 'seeded', 'MATRIX.json')
m = json.load(open(mp))
for meta_p in sorted(glob.glob(os.path.join(VERIF, 'seeded', '*', 'meta.json'))):
    name = os.path.basename(os.path.dirname(meta_p))
    if name in m and not m[name].get('partial'):
        continue
    meta = json.load(open(meta_p))
    row = {}
    for c, v in (meta.get('checks_run') or {}).items():
        rules = sorted({l.split()[0][5:] for l in v.get('lines', []) if l.strip().startswith('rule=')})
        if v.get('exit') == 1 and rules:
            row[c] = rules
    m[name] = {'detected_by': row, 'tooling_errors': [], 'partial': sorted(meta.get('checks_run') or {})}
    print(name, row)
json.dump(m, open(mp, 'w'), indent=1)
