#!/usr/bin/env python3
"""development aid: apply one textual mutation to a scratch worktree of /repo and run checks on it.
usage: mutate.py <file> <old> <new> <check-id>... ; never touches /repo's working tree."""
import subprocess, sys, tempfile, os, shutil
file, old, new, checks = sys.argv[1], sys.argv[2], sys.argv[3], sys.argv[4:]
d = tempfile.mkdtemp(prefix='wt-mut-', dir='/tmp')
os.rmdir(d)
subprocess.run(['git', '-C', '/repo', 'worktree', 'add', '-q', d, 'HEAD'], check=True)
try:
    p = os.path.join(d, file)
    s = open(p).read()
    if s.count(old) < 1:
        print('MUTATION DOES NOT APPLY'); sys.exit(2)
    s = s.replace(old, new, 1)
    open(p, 'w').write(s)
    if os.environ.get('MUT_TEST'):
        r = subprocess.run('cargo test --workspace --offline 2>&1 | grep -E "^test result|FAILED|^error" | head -5', shell=True, cwd=d, capture_output=True, text=True, env=dict(os.environ, CARGO_TARGET_DIR='/tmp/mut-target'))
        print(r.stdout)
    for c in checks:
        r = subprocess.run(['/verif/check', c], capture_output=True, text=True, env=dict(os.environ, VERIF_REPO=d, VERIF_OUT=d + '-out'))
        lines = [l for l in r.stdout.splitlines() if l.startswith('  rule') or l.startswith('[') or 'kind=tooling' in l]
        print('\n'.join(l[:260] for l in lines[:8]))
        if r.returncode not in (0, 1) or (r.stderr and 'Traceback' in r.stderr):
            print(r.stderr[-1500:])
finally:
    subprocess.run(['git', '-C', '/repo', 'worktree', 'remove', '--force', d])
    shutil.rmtree(d + '-out', ignore_errors=True)
