#!/usr/bin/env python3
"""selftest/run_patch.py <patch.diff> [check-id...] — apply a patch to a scratch copy of /repo's working tree (outside /repo and
/verif, removed afterwards), run the given checks (default: all 20) on it and print which ones report. Used for
behaviour-preserving variants (every check must stay silent) as well as for seeded changes."""
import os, shutil, subprocess, sys, tempfile
from concurrent.futures import ThreadPoolExecutor
VERIF = os.path.dirname(os.path.dirname(os.path.abspath(__file__)))
patch = os.path.abspath(sys.argv[1])
ids = [a.upper() for a in sys.argv[2:]] or [f"C{i:02d}" for i in range(1, 21)]
d = tempfile.mkdtemp(prefix='gse-patch-')
try:
    src = os.path.join(d, 'repo')
    shutil.copytree(os.environ.get('VERIF_BASE', '/repo'), src, ignore=shutil.ignore_patterns('target', '.git'))
    r = subprocess.run(['patch', '-p1', '-s', '-i', patch], cwd=src, capture_output=True, text=True)
    if r.returncode != 0:
        print('PATCH DOES NOT APPLY', r.stdout, r.stderr); sys.exit(2)
    def one(pid):
        env = dict(os.environ, VERIF_REPO=src, VERIF_OUT=os.path.join(d, 'o-' + pid), VERIF_TIER='quick')
        r = subprocess.run([os.path.join(VERIF, 'check'), pid], env=env, capture_output=True, text=True)
        return pid, r.returncode, [l for l in r.stdout.splitlines() if l.startswith('  rule=') or l.startswith('  kind=')], r.stderr[-600:] if r.returncode not in (0, 1) else ''
    with ThreadPoolExecutor(int(os.environ.get('JOBS', '8'))) as ex:
        for pid, rc, lines, err in ex.map(one, ids):
            print(pid, 'silent' if rc == 0 else f'REPORTS ({len(lines)})')
            for l in lines[:6]:
                print('    ', l[:300])
            if err:
                print(err)
finally:
    shutil.rmtree(d, ignore_errors=True)
