#!/usr/bin/env python3
"""selftest/silent.py [name...] — run every check against every behaviour-preserving variant of selftest/preserving/*.diff
(scratch copies of /repo's working tree outside /repo and /verif, removed afterwards).  Every check should stay silent; the
result goes to selftest/preserving/STATUS.json: variant -> {check: [rules that reported]} (empty = silent everywhere).
The variants were written by sub-agents (refactorings of one area each, light / medium / heavy), each passes the 276 tests and
was compared with the original by the agent's own differential harness; see the refN-notes.md files."""
import glob, json, os, shutil, subprocess, sys, tempfile
from concurrent.futures import ThreadPoolExecutor
VERIF = os.path.dirname(os.path.dirname(os.path.abspath(__file__)))
IDS = [f"C{i:02d}" for i in range(1, 21)]
only = sys.argv[1:]
sp = os.path.join(VERIF, 'selftest', 'preserving', 'STATUS.json')
status = json.load(open(sp)) if os.path.exists(sp) and only else {}
for patch in sorted(glob.glob(os.path.join(VERIF, 'selftest', 'preserving', '*.diff'))):
    name = os.path.basename(patch)[:-5]
    if only and name not in only:
        continue
    d = tempfile.mkdtemp(prefix='gse-silent-')
    try:
        src = os.path.join(d, 'repo')
        shutil.copytree('/repo', src, ignore=shutil.ignore_patterns('target', '.git'))
        r = subprocess.run(['patch', '-p1', '-s', '-i', patch], cwd=src, capture_output=True, text=True)
        if r.returncode != 0:
            print(name, 'PATCH DOES NOT APPLY'); continue
        def one(pid):
            env = dict(os.environ, VERIF_REPO=src, VERIF_OUT=os.path.join(d, 'o-' + pid), VERIF_TIER='quick')
            r = subprocess.run([os.path.join(VERIF, 'check'), pid], env=env, capture_output=True, text=True)
            rules = sorted({l.split()[0][5:] for l in r.stdout.splitlines() if l.startswith('  rule=')})
            if 'kind=tooling' in r.stdout:
                rules.append('tooling')
            return pid, r.returncode, rules
        with ThreadPoolExecutor(int(os.environ.get('JOBS', '10'))) as ex:
            rr = list(ex.map(one, IDS))
        status[name] = {pid: rules for pid, rc, rules in rr if rc != 0}
        print(name, 'silent' if not status[name] else status[name], flush=True)
    finally:
        shutil.rmtree(d, ignore_errors=True)
json.dump(status, open(sp, 'w'), indent=1)
