#!/usr/bin/env python3
"""selftest/tables.py — markdown tables for DESIGN.md §14 / §15 from seeded/MATRIX.json, seeded/*/meta.json and
selftest/preserving/STATUS.json"""
import glob, json, os
VERIF = os.path.dirname(os.path.dirname(os.path.abspath(__file__)))
m = json.load(open(os.path.join(VERIF, 'seeded', 'MATRIX.json')))
print('| seeded change | what it does (one line) | target check: rules | also reported by |')
print('|---|---|---|---|')
for name in sorted(m):
    meta = json.load(open(os.path.join(VERIF, 'seeded', name, 'meta.json')))
    tgt = name[:3]
    det = m[name]['detected_by']
    summ = (meta.get('summary') or '').replace('\n', ' ').replace('|', '/')
    summ = summ[:150] + ('…' if len(summ) > 150 else '')
    t = ', '.join(det.get(tgt, [])[:3]) if tgt in det else '**MISSED**'
    others = ', '.join(sorted(k for k in det if k != tgt)) or '—'
    if m[name].get('partial'):
        others += ' (only ' + ', '.join(m[name]['partial']) + ' were run)'
    print(f"| `{name}` | {summ} | {tgt}: {t} | {others} |")
sp = os.path.join(VERIF, 'selftest', 'preserving', 'STATUS.json')
if os.path.exists(sp):
    s = json.load(open(sp))
    print()
    print('| behaviour-preserving variant | checks that report (should be none) |')
    print('|---|---|')
    for name in sorted(s):
        r = s[name]
        cell = 'silent' if not r else '; '.join(k + ': ' + ', '.join(v[:3]) for k, v in sorted(r.items()))
        print('| `' + name + '` | ' + cell + ' |')
