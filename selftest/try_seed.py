#!/usr/bin/env python3
"""confirm a seeded change produced by a sub-agent and run checks against it.
usage: try_seed.py <seed-dir> <name> <check-id>...
 1. fresh scratch worktree of /repo HEAD: apply patch, run the existing tests (must pass), run the demo (must fail);
    revert the patch, run the demo (must pass). Worktree and build output are removed afterwards.
 2. apply the patch to /repo itself (git apply), run the given checks, undo (git checkout -- .).
 3. store patch.diff, demo.rs, meta.json (+ what was run and what the checks said) under /verif/seeded/<name>/ ."""
import json, os, shutil, subprocess, sys, tempfile
VERIF = os.path.dirname(os.path.dirname(os.path.abspath(__file__)))
seed, name, checks = sys.argv[1], sys.argv[2], sys.argv[3:]
patch = os.path.join(seed, 'patch.diff')
demo = os.path.join(seed, 'demo.rs')
meta = json.load(open(os.path.join(seed, 'meta.json')))
wt = tempfile.mkdtemp(prefix='wt-seed-', dir='/tmp'); os.rmdir(wt)
tgt = wt + '-target'
env = dict(os.environ, CARGO_TARGET_DIR=tgt, CARGO_NET_OFFLINE='true')
def sh(cmd, cwd, **kw):
    return subprocess.run(cmd, shell=True, cwd=cwd, capture_output=True, text=True, env=env, **kw)
res = {}
subprocess.run(['git', '-C', '/repo', 'worktree', 'add', '-q', '--detach', wt, 'HEAD'], check=True)
try:
    r = sh(f'git apply {patch}', wt); assert r.returncode == 0, r.stderr
    r = sh('cargo test --workspace --offline 2>&1 | grep -E "^test result"', wt)
    res['existing_tests_with_patch'] = r.stdout.strip().splitlines()
    ok_existing = all(' 0 failed' in l for l in res['existing_tests_with_patch']) and len(res['existing_tests_with_patch']) >= 3
    shutil.copy(demo, os.path.join(wt, 'tests', 'demo.rs'))
    r = sh('cargo test --offline --test demo 2>&1 | grep -E "^test result|^error"', wt)
    res['demo_with_patch'] = r.stdout.strip()
    demo_fails = 'FAILED' in r.stdout or ('failed' in r.stdout and ' 0 failed' not in r.stdout)
    sh(f'git apply -R {patch}', wt)
    r = sh('cargo test --offline --test demo 2>&1 | grep -E "^test result|^error"', wt)
    res['demo_without_patch'] = r.stdout.strip()
    demo_passes = 'test result: ok' in r.stdout
finally:
    subprocess.run(['git', '-C', '/repo', 'worktree', 'remove', '--force', wt])
    shutil.rmtree(tgt, ignore_errors=True)
print(json.dumps(res, indent=1))
print('CONFIRMED' if (ok_existing and demo_fails and demo_passes) else 'NOT CONFIRMED', ok_existing, demo_fails, demo_passes)
verdicts = {}
scratch_out = tempfile.mkdtemp(prefix='seed-out-')   # findings / evidence of runs on a seeded tree never overwrite /verif/evidence
if ok_existing and demo_fails and demo_passes:
    scratch_repo = None
    if os.environ.get('SEED_SCRATCH'):
        # several seeds at once: the checks read a patched scratch copy of /repo's HEAD (VERIF_REPO) instead of /repo itself
        scratch_repo = tempfile.mkdtemp(prefix='seed-repo-')
        subprocess.run(f'git -C /repo archive HEAD | tar -x -C {scratch_repo} && git -C {scratch_repo} init -q && git -C {scratch_repo} apply {patch}', shell=True, check=True)
    else:
        subprocess.run(['git', '-C', '/repo', 'apply', patch], check=True)
    try:
        for c in checks:
            cenv = dict(os.environ, VERIF_OUT=scratch_out)
            if scratch_repo:
                cenv['VERIF_REPO'] = scratch_repo
            r = subprocess.run([os.path.join(VERIF, 'check'), c], capture_output=True, text=True, env=cenv)
            lines = [l for l in r.stdout.splitlines() if l.startswith('  rule') or l.startswith('[') or l.startswith('KNOWN')]
            verdicts[c] = {'exit': r.returncode, 'lines': [l[:300] for l in lines[:10]]}
            print(c, 'exit', r.returncode)
            for l in lines[:6]:
                print('   ', l[:260])
    finally:
        if scratch_repo:
            shutil.rmtree(scratch_repo, ignore_errors=True)
        else:
            subprocess.run(['git', '-C', '/repo', 'checkout', '--', '.'], check=True)
    out = os.path.join(VERIF, 'seeded', name)
    os.makedirs(out, exist_ok=True)
    shutil.copy(patch, os.path.join(out, 'patch.diff'))
    shutil.copy(demo, os.path.join(out, 'demo.rs'))
    meta2 = {'property': meta.get('property'), 'summary': meta.get('summary'), 'needs_to_manifest': meta.get('needs_to_manifest'), 'origin': meta.get('origin'),
             'confirmed_by': res, 'commands': ['git apply patch.diff (scratch worktree)', 'cargo test --workspace --offline', 'cargo test --offline --test demo (with / without patch)',
                                               'git -C /repo apply patch.diff; ./check <id>; git -C /repo checkout -- .'],
             'checks_run': verdicts, 'detected_by': [c for c, v in verdicts.items() if v['exit'] == 1]}
    json.dump(meta2, open(os.path.join(out, 'meta.json'), 'w'), indent=1)
shutil.rmtree(scratch_out, ignore_errors=True)
